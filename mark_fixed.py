#!/usr/bin/env python3
"""mark_fixed.py <finding-id> <commit> : records a repaired defect in known_findings.json."""
import json, sys
fid, commit = sys.argv[1], sys.argv[2]
k = json.load(open('/verif/known_findings.json'))
for f in k['findings']:
    if f['id'] == fid:
        f['status'] = 'fixed'
        f['fixed_in'] = commit
        k['fixed'].append(f"fixed: property={f['property']} {commit} {f['what']}")
        break
else:
    sys.exit('no such finding')
json.dump(k, open('/verif/known_findings.json', 'w'), indent=1)
