package absnfs

// C15 — arbitrary client bytes cannot crash, desynchronise or exhaust the server (single connection,
// sequential part): the real connection loop is driven over a stub connection.

import (
	"io"
	"net"
	"sync"
	"time"
)

func init() {
	vpRegister("VPH_C15_stream", VPH_C15_stream)
	vpRegister("VPH_C15_rawbytes", VPH_C15_rawbytes)
	vpRegister("VPH_C15_write_lengths", VPH_C15_write_lengths)
	vpRegister("VPH_C15_wellformed", VPH_C15_wellformed)
}

type vpConn struct {
	mu     sync.Mutex // the native replay serves the connection from another goroutine (C28)
	in     []byte
	pos    int
	out    []byte
	closed int
	remote string
	// hook, when set, runs once, just before the server is handed the input byte at position
	// hookAt (C16: something happens between two calls of one connection); reads never cross it
	hookAt int
	hook   func()
	// seg, when positive, is the most a single Read returns (the client's bytes arrive in TCP
	// segments of that size)
	seg int
}

func (c *vpConn) Read(p []byte) (int, error) {
	c.mu.Lock()
	if c.hook != nil && c.pos >= c.hookAt {
		h := c.hook
		c.hook = nil
		c.mu.Unlock()
		h()
		c.mu.Lock()
	}
	defer c.mu.Unlock()
	if c.pos >= len(c.in) {
		return 0, io.EOF
	}
	end := len(c.in)
	if c.hook != nil && c.hookAt > c.pos && c.hookAt < end {
		end = c.hookAt
	}
	if c.seg > 0 && end-c.pos > c.seg {
		end = c.pos + c.seg
	}
	n := copy(p, c.in[c.pos:end])
	c.pos += n
	return n, nil
}
func (c *vpConn) Write(p []byte) (int, error) {
	c.mu.Lock()
	defer c.mu.Unlock()
	c.out = append(c.out, p...)
	return len(p), nil
}
func (c *vpConn) Close() error {
	c.mu.Lock()
	defer c.mu.Unlock()
	c.closed++
	return nil
}

// served reports whether the server has closed the connection, and what it wrote.
func (c *vpConn) served() (bool, []byte) {
	c.mu.Lock()
	defer c.mu.Unlock()
	return c.closed > 0, append([]byte(nil), c.out...)
}
func (c *vpConn) LocalAddr() net.Addr                { return vpAddr{"127.0.0.1:2049"} }
func (c *vpConn) RemoteAddr() net.Addr               { return vpAddr{c.remote} }
func (c *vpConn) SetDeadline(t time.Time) error      { return nil }
func (c *vpConn) SetReadDeadline(t time.Time) error  { return nil }
func (c *vpConn) SetWriteDeadline(t time.Time) error { return nil }

// vpSplitRecords parses a record-marked byte stream into records (single-fragment records only).
func vpSplitRecords(b []byte) ([][]byte, bool) {
	var out [][]byte
	pos := 0
	for pos < len(b) {
		if pos+4 > len(b) {
			return out, false
		}
		h := uint32(b[pos])<<24 | uint32(b[pos+1])<<16 | uint32(b[pos+2])<<8 | uint32(b[pos+3])
		n := int(h &^ LastFragmentFlag)
		if h&LastFragmentFlag == 0 || pos+4+n > len(b) {
			return out, false
		}
		out = append(out, b[pos+4:pos+4+n])
		pos += 4 + n
	}
	return out, true
}

type vpWireCall struct {
	bytes     []byte
	xid       uint32
	decodable bool
}

// vpDrawCall draws one call record: an RPC header whose words are symbolic (message type, versions,
// program, procedure, flavors), short credential and verifier bodies, and a few argument words.
func vpDrawCall(tag string, hd uint64) vpWireCall {
	var b vpBuf
	c := vpWireCall{xid: vpU32(tag + ".xid")}
	msgType := vpU32(tag + ".msgtype")
	prog := uint32(NFS_PROGRAM)
	switch vpChoose(tag+".prog", 0, 2) {
	case 1:
		prog = MOUNT_PROGRAM
	case 2:
		prog = vpU32(tag + ".otherprog")
	}
	// procedures from a small menu (every handler's argument decoding is C14's subject) or any unknown number
	proc := []uint32{NFSPROC3_NULL, NFSPROC3_GETATTR, NFSPROC3_LOOKUP, NFSPROC3_WRITE, 0}[vpChoose(tag+".procsel", 0, 4)]
	if proc == 0 && vpBool(tag+".unknownproc") {
		proc = vpU32(tag + ".proc")
		vpAssume(proc > 21)
	}
	b.u32(c.xid).u32(msgType).u32(vpU32(tag + ".rpcvers")).u32(prog).u32(vpU32(tag + ".vers")).u32(proc)
	credLen := vpChoose(tag+".credlen", 0, 1) * 8
	overCred := vpBool(tag + ".cred-over-limit")
	if overCred {
		l := vpU32(tag + ".credlenword")
		vpAssume(l > MAX_RPC_AUTH_LENGTH)
		b.u32(vpU32(tag + ".credflavor")).u32(l)
	} else {
		b.u32(vpU32(tag + ".credflavor")).u32(uint32(credLen)).raw(vpBytes(tag+".cred", credLen))
		b.u32(vpU32(tag + ".verfflavor")).u32(0)
	}
	// arguments: either a valid directory handle followed by words, or just words
	if vpBool(tag + ".valid-handle") {
		b.fh(hd)
	}
	n := 4 * vpChoose(tag+".argwords", 0, 1)
	args := vpBytes(tag+".args", n)
	for w := 0; w+4 <= n; w += 4 {
		v := uint32(args[w])<<24 | uint32(args[w+1])<<16 | uint32(args[w+2])<<8 | uint32(args[w+3])
		vpAssume(vpOr(v <= 8, v > 8192))
	}
	b.raw(args)
	c.bytes = b.Bytes()
	c.decodable = vpAnd(msgType == RPC_CALL, !overCred)
	return c
}

// vpDrawNarrowCall: a NULL or GETATTR call with a symbolic xid and message type (so it is either a
// well-formed call or a record the server cannot decode as a call).
func vpDrawNarrowCall(tag string, hd uint64) vpWireCall {
	var b vpBuf
	c := vpWireCall{xid: vpU32(tag + ".xid")}
	msgType := vpU32(tag + ".msgtype")
	proc := []uint32{NFSPROC3_NULL, NFSPROC3_GETATTR}[vpChoose(tag+".procsel", 0, 1)]
	b.u32(c.xid).u32(msgType).u32(2).u32(NFS_PROGRAM).u32(NFS_V3).u32(proc)
	b.u32(AUTH_NONE).u32(0).u32(AUTH_NONE).u32(0)
	b.fh(hd)
	c.bytes = b.Bytes()
	c.decodable = msgType == RPC_CALL
	return c
}

func vpFrame(payload []byte) []byte {
	var b vpBuf
	b.u32(uint32(len(payload)) | LastFragmentFlag).raw(payload)
	return b.Bytes()
}

// VPH_C15_stream: one or two call records on a record-marking connection.
func VPH_C15_stream() {
	fs := vpStdTree()
	env := vpServer(fs, ExportOptions{})
	hd := env.handleFor("/d")
	env.srv.options.UseRecordMarking = true
	nrec := 1
	if vpTier() == 1 {
		nrec = vpChoose("records", 1, 2)
	}
	var in []byte
	var calls []vpWireCall
	for i := 0; i < nrec; i++ {
		var c vpWireCall
		if nrec == 2 && i == 0 {
			// two records: the first from a narrow menu, the second (which meets whatever state the
			// first left on the connection) in full generality; both fully general did not finish
			c = vpDrawNarrowCall("a", hd)
		} else {
			c = vpDrawCall([]string{"a", "b"}[i], hd)
		}
		calls = append(calls, c)
		in = append(in, vpFrame(c.bytes)...)
	}
	conn := &vpConn{in: in, remote: "10.0.0.5:800"}
	env.srv.handleConnectionWithRecordMarking(conn, env.h)
	vpAssert(conn.closed >= 1, "connection-closed-at-end-of-stream")
	replies, ok := vpSplitRecords(conn.out)
	vpAssert(ok, "output-is-record-marked")
	// expected xids: every decodable call, in arrival order, until the first undecodable record
	var want []uint32
	for _, c := range calls {
		if !c.decodable {
			break // an undecodable record desynchronises the stream: the connection is closed
		}
		want = append(want, c.xid)
	}
	vpAssert(len(replies) <= len(want), "at-most-one-reply-per-decodable-call")
	vpAssert(len(replies) == len(want), "every-decodable-call-answered-until-stream-breaks")
	for i, r := range replies {
		if i < len(want) {
			rd := &vpRd{b: r}
			h := vpRPCReplyHeader(rd)
			vpAssert(!rd.bad, "reply-header-well-formed")
			vpAssert(h.xid == want[i], "reply-carries-the-calls-xid-in-arrival-order")
		}
	}
	// ... nor stops serving others: nothing the connection did (a refused credential, an
	// undecodable record) leaves the policy lock held, which would block the next policy update and
	// with it every request on every connection
	vpDrainLockFree(env, "after-the-connection")
	if len(want) < len(calls) {
		vpReach("undecodable-record")
	}
	if len(want) > 0 {
		vpReach("answered")
	}
}

// VPH_C15_rawbytes: a record header and payload that are entirely arbitrary (short), including
// fragment lengths that do not match the data and lengths above the record limit.
func VPH_C15_rawbytes() {
	fs := vpStdTree()
	env := vpServer(fs, ExportOptions{})
	env.srv.options.UseRecordMarking = true
	N := 12
	if vpTier() == 1 {
		N = 20
	}
	n := vpChoose("len", 0, N)
	payload := vpBytes("payload", n)
	hdr := vpU32("fraghdr")
	l := hdr &^ LastFragmentFlag
	// the declared fragment length is small or above the record limit (sizes in between are allocation
	// sizes the engine would have to enumerate one by one)
	vpAssume(vpOr(l <= 24, l > DefaultMaxRecordSize))
	for w := 0; w+4 <= n; w++ {
		// any four bytes may be read as a further fragment header (fragment lengths need not be multiples of four)
		v := (uint32(payload[w])<<24 | uint32(payload[w+1])<<16 | uint32(payload[w+2])<<8 | uint32(payload[w+3])) &^ LastFragmentFlag
		vpAssume(vpOr(v <= 24, v > DefaultMaxRecordSize))
	}
	var b vpBuf
	b.u32(hdr).raw(payload)
	conn := &vpConn{in: b.Bytes(), remote: "10.0.0.5:800"}
	env.srv.handleConnectionWithRecordMarking(conn, env.h)
	vpAssert(conn.closed >= 1, "connection-closed")
	replies, ok := vpSplitRecords(conn.out)
	vpAssert(ok, "output-is-record-marked")
	vpAssert(len(replies) <= 1, "at-most-one-reply")
	if len(replies) == 1 {
		vpReach("answered")
		// it can only be the answer to a call header found in the payload
		rd := &vpRd{b: replies[0]}
		h := vpRPCReplyHeader(rd)
		in := &vpRd{b: payload}
		vpAssert(h.xid == in.u32(), "reply-xid-is-the-records-first-word")
	} else {
		vpReach("no-reply")
	}
}

// VPH_C15_write_lengths: a WRITE whose count and opaque-data length word are independent arbitrary
// 32-bit values (with at most 8 bytes of data actually present): no panic, a well-formed reply, and
// nothing is allocated by a client-supplied length before it has been checked against the
// transfer size (allocation obligation: every make() is bounded by 64 KiB on all values).
func VPH_C15_write_lengths() {
	fs := vpStdTree()
	env := vpServer(fs, ExportOptions{})
	hx := env.handleFor("/d/x")
	count, dlen := vpU32("count"), vpU32("datalen")
	var b vpBuf
	b.fh(hx).u64(vpU64("offset")).u32(count).u32(vpU32("stable")).u32(dlen).raw(vpBytes("data", 8))
	var reply *RPCReply
	vpAllocGuard(65536, func() { reply = env.call(NFSPROC3_WRITE, b.Bytes()) })
	vpAssert(reply != nil, "write-answered")
	rd := &vpRd{b: vpReplyBytes(reply)}
	st := rd.u32()
	rd.wccData()
	if st == NFS_OK {
		vpReach("write-ok")
		n := rd.u32()
		rd.u32()
		rd.u64()
		vpAssert(n <= 8, "no-more-stored-than-was-sent")
	} else {
		vpReach("write-refused")
	}
	vpAssert(rd.done(), "write-reply-well-formed")
}

// VPH_C15_wellformed: one well-formed call of any NFSv3 procedure whose numeric arguments (offsets,
// counts, cookies, sizes, times) take any value, on a record-marking connection through the real
// connection loop: no panic, exactly one reply, carrying the call's xid, and the policy lock is
// free afterwards. (What each reply must contain is C14's subject.)
func VPH_C15_wellformed() {
	fs := vpStdTree()
	env := vpServer(fs, ExportOptions{})
	hd, hx, hl := env.handleFor("/d"), env.handleFor("/d/x"), env.handleFor("/d/l")
	env.srv.options.UseRecordMarking = true
	proc := uint32(vpChoose("proc", 0, 21))
	g := &vpGen{handles: []uint64{hd, hx, hl}, names: []string{"x", "new"}, maxData: 2}
	xid := vpU32("xid")
	var b vpBuf
	b.u32(xid).u32(RPC_CALL).u32(2).u32(NFS_PROGRAM).u32(NFS_V3).u32(proc)
	b.u32(AUTH_NONE).u32(0).u32(AUTH_NONE).u32(0).raw(g.args(proc))
	conn := &vpConn{in: vpFrame(b.Bytes()), remote: "10.0.0.5:800"}
	env.srv.handleConnectionWithRecordMarking(conn, env.h)
	vpAssert(conn.closed >= 1, "connection-closed-at-end-of-stream")
	replies, ok := vpSplitRecords(conn.out)
	vpAssert(ok, "output-is-record-marked")
	vpAssert(len(replies) == 1, "exactly-one-reply")
	if len(replies) == 1 {
		rd := &vpRd{b: replies[0]}
		h := vpRPCReplyHeader(rd)
		vpAssert(!rd.bad, "reply-header-well-formed")
		vpAssert(h.xid == xid, "reply-carries-the-calls-xid")
		vpReach("answered")
	}
	vpDrainLockFree(env, "after-the-connection")
}
