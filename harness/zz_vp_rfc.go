package absnfs

// vpRFC: an independent reader of RFC 1831 replies and RFC 1813 / MOUNT v3 results, written from
// the RFC grammar. Every function consumes exactly the bytes of the type it names and reports
// malformed input through rd.bad.

var vpNfsstat3 = []uint32{0, 1, 2, 5, 6, 13, 17, 18, 19, 20, 21, 22, 27, 28, 30, 31, 63, 66, 69, 70, 71,
	10001, 10002, 10003, 10004, 10005, 10006, 10007, 10008}

var vpMountstat3 = []uint32{0, 1, 2, 5, 13, 20, 22, 63, 10004, 10006}

func vpInEnum(v uint32, enum []uint32) bool {
	ok := false
	for _, e := range enum {
		ok = vpOr(ok, v == e)
	}
	return ok
}

func (r *vpRd) boolean() bool {
	v := r.u32()
	if v > 1 {
		r.bad = true
	}
	return v == 1
}

func (r *vpRd) fixed(n int) {
	if r.pos+n > len(r.b) {
		r.bad = true
		r.pos = len(r.b)
		return
	}
	r.pos += n
}

func (r *vpRd) postOpAttr() {
	if r.boolean() && !r.bad {
		r.fattr()
	}
}

func (r *vpRd) preOpAttr() {
	if r.boolean() && !r.bad {
		r.fixed(24)
	}
}

func (r *vpRd) wcc() { r.preOpAttr(); r.postOpAttr() }

func (r *vpRd) postOpFh() {
	if r.boolean() && !r.bad {
		fh := r.opaque()
		if len(fh) > 64 {
			r.bad = true
		}
	}
}

// vpNFSResult consumes the result of NFSv3 procedure proc; it returns the status.
func vpNFSResult(r *vpRd, proc uint32) uint32 {
	if proc == NFSPROC3_NULL {
		return 0
	}
	st := r.u32()
	ok := st == NFS_OK
	switch proc {
	case NFSPROC3_GETATTR:
		if ok {
			r.fattr()
		}
	case NFSPROC3_SETATTR, NFSPROC3_REMOVE, NFSPROC3_RMDIR:
		r.wcc()
	case NFSPROC3_LOOKUP:
		if ok {
			fh := r.opaque()
			if len(fh) > 64 {
				r.bad = true
			}
			r.postOpAttr()
		}
		r.postOpAttr()
	case NFSPROC3_ACCESS:
		r.postOpAttr()
		if ok {
			r.u32()
		}
	case NFSPROC3_READLINK:
		r.postOpAttr()
		if ok {
			r.opaque()
		}
	case NFSPROC3_READ:
		r.postOpAttr()
		if ok {
			cnt := r.u32()
			r.boolean()
			d := r.opaque()
			if !r.bad && uint32(len(d)) != cnt {
				r.bad = true
			}
		}
	case NFSPROC3_WRITE:
		r.wcc()
		if ok {
			r.u32()
			if c := r.u32(); c > 2 {
				r.bad = true
			}
			r.fixed(8)
		}
	case NFSPROC3_CREATE, NFSPROC3_MKDIR, NFSPROC3_SYMLINK, NFSPROC3_MKNOD:
		if ok {
			r.postOpFh()
			r.postOpAttr()
		}
		r.wcc()
	case NFSPROC3_RENAME:
		r.wcc()
		r.wcc()
	case NFSPROC3_LINK:
		r.postOpAttr()
		r.wcc()
	case NFSPROC3_READDIR, NFSPROC3_READDIRPLUS:
		r.postOpAttr()
		if ok {
			r.fixed(8)
			for {
				more := r.boolean()
				if r.bad || !more {
					break
				}
				r.u64()
				r.opaque()
				r.u64()
				if proc == NFSPROC3_READDIRPLUS {
					r.postOpAttr()
					r.postOpFh()
				}
			}
			r.boolean()
		}
	case NFSPROC3_FSSTAT:
		r.postOpAttr()
		if ok {
			r.fixed(6*8 + 4)
		}
	case NFSPROC3_FSINFO:
		r.postOpAttr()
		if ok {
			r.fixed(7*4 + 8 + 8 + 4)
		}
	case NFSPROC3_PATHCONF:
		r.postOpAttr()
		if ok {
			r.u32()
			r.u32()
			r.boolean()
			r.boolean()
			r.boolean()
			r.boolean()
		}
	case NFSPROC3_COMMIT:
		r.wcc()
		if ok {
			r.fixed(8)
		}
	default:
		r.bad = true
	}
	return st
}

// vpMountResult consumes the result of MOUNT v3 procedure proc.
func vpMountResult(r *vpRd, proc uint32) (status uint32, hasStatus bool) {
	switch proc {
	case 0, 3, 4: // NULL, UMNT, UMNTALL: void
	case 1: // MNT
		st := r.u32()
		if st == 0 {
			fh := r.opaque()
			if len(fh) > 64 {
				r.bad = true
			}
			n := int(vpConcreteU64(uint64(r.u32())))
			if n > 16 {
				r.bad = true
				return st, true
			}
			for i := 0; i < n; i++ {
				r.u32()
			}
		}
		return st, true
	case 2: // DUMP: mountlist
		for r.boolean() && !r.bad {
			r.opaque()
			r.opaque()
		}
	case 5: // EXPORT
		for r.boolean() && !r.bad {
			r.opaque()
			for r.boolean() && !r.bad {
				r.opaque()
			}
		}
	default:
		r.bad = true
	}
	return 0, false
}

type vpRPCReplyHdr struct {
	xid, replyStat, acceptStat uint32
	accepted                   bool
}

// vpRPCReplyHeader consumes an RFC 1831 reply up to (not including) the procedure result.
func vpRPCReplyHeader(r *vpRd) vpRPCReplyHdr {
	var h vpRPCReplyHdr
	h.xid = r.u32()
	if r.u32() != RPC_REPLY {
		r.bad = true
	}
	h.replyStat = r.u32()
	switch h.replyStat {
	case MSG_ACCEPTED:
		h.accepted = true
		r.u32() // verifier flavor
		v := r.opaque()
		if len(v) > 400 {
			r.bad = true
		}
		h.acceptStat = r.u32()
		switch h.acceptStat {
		case SUCCESS:
		case PROG_MISMATCH:
			r.u32()
			r.u32()
		case PROG_UNAVAIL, PROC_UNAVAIL, GARBAGE_ARGS, SYSTEM_ERR:
		default:
			r.bad = true
		}
	case MSG_DENIED:
		switch r.u32() {
		case RPC_MISMATCH:
			r.u32()
			r.u32()
		case AUTH_ERROR:
			r.u32()
		default:
			r.bad = true
		}
	default:
		r.bad = true
	}
	return h
}
