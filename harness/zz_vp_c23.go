package absnfs

// C23 — READ and WRITE within the advertised FSINFO limits are served.

func init() {
	vpRegister("VPH_C23_limits", VPH_C23_limits)
	vpRegister("VPH_C23_read", VPH_C23_read)
	vpRegister("VPH_C23_raised_on_open_connection", VPH_C23_raised_on_open_connection)
}

type vpFsinfo struct{ rtmax, rtpref, rtmult, wtmax, wtpref, wtmult, dtpref uint32 }

func vpGetFsinfo(env *vpEnv, h uint64) vpFsinfo {
	var b vpBuf
	b.fh(h)
	rd := &vpRd{b: vpReplyBytes(env.call(NFSPROC3_FSINFO, b.Bytes()))}
	vpAssert(rd.u32() == NFS_OK, "fsinfo-ok")
	rd.postOp()
	fi := vpFsinfo{rd.u32(), rd.u32(), rd.u32(), rd.u32(), rd.u32(), rd.u32(), rd.u32()}
	rd.u64() // maxfilesize
	rd.u32()
	rd.u32() // time_delta
	rd.u32() // properties
	vpAssert(rd.done(), "fsinfo-shape")
	return fi
}

// vpTransferEnv: a server whose TransferSize is any positive int, set at construction or at run time.
func vpTransferEnv() (*vpEnv, int) {
	ts := vpInt("transfersize")
	vpAssume(ts > 0) // every positive int, also above 2^32
	fs := vpNewFS()
	fs.addDir("/d")
	n := fs.addFile("/d/x", 0)
	n.size = vpI64("filesize")
	vpAssume(vpAnd(n.size >= 0, n.size < 1<<62))
	var env *vpEnv
	if vpBool("set-at-runtime") {
		env = vpServer(fs, ExportOptions{})
		if vpBool("fsinfo-served-before-the-change") {
			// a client asked before the change; what the next FSINFO advertises is the new limits
			vpGetFsinfo(env, env.handleFor("/d/x"))
			vpReach("fsinfo-before-change")
		}
		env.nfs.UpdateTuningOptions(func(t *TuningOptions) { t.TransferSize = ts })
		vpReach("runtime")
		// ... possibly followed by an update that leaves the field zero (an ExportOptions literal
		// that does not name it): the construction default is then in force
		if vpBool("then-left-zero") {
			o := env.nfs.GetExportOptions()
			o.TransferSize = 0
			vpAssert(env.nfs.UpdateExportOptions(o) == nil, "update-accepted")
			ts = 65536
			vpReach("runtime-zero")
		}
	} else {
		env = vpServer(fs, ExportOptions{TransferSize: ts})
		vpReach("construction")
	}
	return env, ts
}

// VPH_C23_limits: what FSINFO advertises is accepted by the WRITE admission test
// and by the record-size limit. The WRITE path is followed up to the point
// where the payload buffer would be allocated (reaching it means "admitted").
func VPH_C23_limits() {
	env, _ := vpTransferEnv()
	h := env.handleFor("/d/x")
	fi := vpGetFsinfo(env, h)
	vpObserve("wtmax", fi.wtmax)
	vpAssert(vpAnd(fi.rtpref <= fi.rtmax, fi.wtpref <= fi.wtmax), "pref-not-above-max")
	// WRITE admission: count is any value up to the advertised maximum; the body carries
	// the declared length but no data, so a request that passes admission ends in the
	// short-data error and one that is refused ends in NFS3ERR_INVAL.
	cnt := vpU32("count")
	vpAssume(vpAnd(cnt > 0, cnt <= fi.wtmax))
	vpAssume(cnt > 64) // so that the data really is missing from the body below
	var b vpBuf
	b.fh(h).u64(0).u32(cnt).u32(2).u32(cnt).raw(vpBytes("some", 8))
	rd := &vpRd{b: vpReplyBytes(env.call(NFSPROC3_WRITE, b.Bytes()))}
	status := rd.u32()
	vpObserve("status", status)
	vpKnown("K-C23-fsinfo-maxima-not-enforced-bound", true)
	vpAssert(status != NFSERR_INVAL, "write-up-to-wtmax-not-refused-as-invalid")
	// a WRITE call carrying wtmax bytes must fit the record limit; its fixed part (RPC header with
	// empty credentials, handle, offset, count, stable, length) is at least 72 bytes
	const fixedCallOverhead = 40 + 12 + 8 + 4 + 4 + 4
	vpAssert(uint64(fi.wtmax)+fixedCallOverhead <= DefaultMaxRecordSize, "wtmax-fits-record-limit")
}

// VPH_C23_read: a READ before EOF with any count up to rtmax returns at least one byte.
func VPH_C23_read() {
	env, ts := vpTransferEnv()
	h := env.handleFor("/d/x")
	fi := vpGetFsinfo(env, h)
	size := env.fs.nodes["/d/x"].size
	off := vpU64("offset")
	cnt := vpU32("count")
	vpAssume(vpAnd(cnt > 0, cnt <= fi.rtmax))
	vpAssume(off < uint64(size)) // before EOF
	// keep the buffer the server will allocate small: at most 4 bytes are available or requested
	vpAssume(vpOr(vpOr(cnt <= 4, ts <= 4), uint64(size)-off <= 4))
	var b vpBuf
	b.fh(h).u64(off).u32(cnt)
	rd := &vpRd{b: vpReplyBytes(env.call(NFSPROC3_READ, b.Bytes()))}
	status := rd.u32()
	vpAssert(status == NFS_OK, "read-before-eof-ok")
	rd.postOp()
	n := rd.u32()
	vpAssert(n >= 1, "read-before-eof-returns-data")
	vpAssert(n <= cnt, "read-not-more-than-requested")
}

// VPH_C23_raised_on_open_connection: TransferSize is raised at run time while a client's
// record-marking connection is open. On that same connection the next FSINFO advertises the new
// maximum and a WRITE of a size between the old and the new maximum is served: nothing about the
// connection remembers the limit that was in force when it was opened.
func VPH_C23_raised_on_open_connection() {
	fs := vpNewFS()
	fs.addDir("/d")
	fs.addFileData("/d/x", []byte{})
	env := vpServer(fs, ExportOptions{TransferSize: 1024})
	env.srv.options.UseRecordMarking = true
	h := env.handleFor("/d/x")
	newSize := 16384
	count := []int{1024, 1025, 5121, 8192, 16384}[vpChoose("count", 0, 4)]
	data := make([]byte, count)
	var f, w vpBuf
	f.fh(h)
	w.fh(h).u64(0).u32(uint32(count)).u32(2).opaque(data)
	var in []byte
	in = append(in, vpClientCall(301, NFS_PROGRAM, NFS_V3, NFSPROC3_FSINFO, f.Bytes())...)
	cut := len(in)
	in = append(in, vpClientCall(302, NFS_PROGRAM, NFS_V3, NFSPROC3_FSINFO, f.Bytes())...)
	in = append(in, vpClientCall(303, NFS_PROGRAM, NFS_V3, NFSPROC3_WRITE, w.Bytes())...)
	conn := &vpConn{in: in, remote: "10.0.0.5:700"}
	conn.hookAt = cut
	conn.hook = func() {
		if vpBool("via-UpdateExportOptions") {
			o := env.nfs.GetExportOptions()
			o.TransferSize = newSize
			vpAssert(env.nfs.UpdateExportOptions(o) == nil, "update-accepted")
		} else {
			env.nfs.UpdateTuningOptions(func(t *TuningOptions) { t.TransferSize = newSize })
		}
		vpReach("raised-between-calls")
	}
	env.srv.handleConnectionWithRecordMarking(conn, env.h)
	replies, ok := vpSplitRecords(conn.out)
	vpAssert(vpAnd(ok, len(replies) == 3), "every-call-on-the-connection-answered")
	if !ok || len(replies) != 3 {
		return
	}
	r2 := &vpRd{b: replies[1]}
	vpRPCReplyHeader(r2)
	vpAssert(r2.u32() == NFS_OK, "fsinfo-ok")
	r2.postOp()
	r2.u32()
	r2.u32()
	r2.u32()
	wtmax := r2.u32()
	vpAssert(wtmax == uint32(newSize), "fsinfo-on-the-open-connection-advertises-the-new-maximum")
	r3 := &vpRd{b: replies[2]}
	hd := vpRPCReplyHeader(r3)
	vpAssert(hd.xid == 303, "write-reply-xid")
	vpAssert(r3.u32() == NFS_OK, "write-within-the-advertised-maximum-served")
	vpAssert(fs.nodes["/d/x"].size == int64(count), "data-written")
}
