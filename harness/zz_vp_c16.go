package absnfs

// C16 — policy updates and requests (sequential part only): once an update has returned, every later
// request is judged under the new policy, also on a connection that was opened before the update.
// The update is made between two calls of one connection, through the real connection loop: the stub
// connection runs it when the server starts reading the next record. Interleavings of an update
// with requests in flight are outside the engine (DESIGN.md sections 5 and 15).

import "time"

func init() {
	vpRegister("VPH_C16_update_between_calls", VPH_C16_update_between_calls)
}

func VPH_C16_update_between_calls() { vpUpdateBetweenCalls([]int{0, 1, 2, 3, 4}) }

// vpUpdateBetweenCalls: kinds lists the policy changes to choose from (0 read-only on, 1 client
// removed from the allow-list, 2 secure-port rule on, 3 rate limiting on, 4 rate limits tightened on a
// server that was already limiting generously); C09 uses 1 and 2.
func vpUpdateBetweenCalls(kinds []int) {
	fs := vpStdTree()
	fs.addAbsent("/d/n1")
	fs.addAbsent("/d/n2")
	fs.addAbsent("/d/n3")
	what := kinds[vpChoose("update", 0, len(kinds)-1)]
	opts := ExportOptions{}
	if what == 4 {
		// already rate limiting, generously: the connection's own bucket exists before the update
		cfg := DefaultRateLimiterConfig()
		cfg.GlobalRequestsPerSecond = 1000
		cfg.PerIPRequestsPerSecond, cfg.PerIPBurstSize = 1000, 1000
		cfg.PerConnectionRequestsPerSecond, cfg.PerConnectionBurstSize = 1000, 1000
		cfg.CleanupInterval = time.Hour
		opts.EnableRateLimiting, opts.RateLimitConfig = true, &cfg
	}
	env := vpServer(fs, opts)
	hd := env.handleFor("/d")
	env.srv.options.UseRecordMarking = true
	vpSetClock(1_000_000_000)

	var in []byte
	var cut []int
	for k, name := range []string{"n1", "n2", "n3"} {
		var a vpBuf
		a.fh(hd).str(name).sattr(&vpSattr{})
		cut = append(cut, len(in))
		in = append(in, vpClientCall(uint32(300+k), NFS_PROGRAM, NFS_V3, NFSPROC3_MKDIR, a.Bytes())...)
	}
	conn := &vpConn{in: in, remote: "10.0.0.5:" + []string{"700", "2000"}[vpChoose("port-class", 0, 1)]}
	highPort := conn.remote == "10.0.0.5:2000"
	viaExport := vpBool("via-UpdateExportOptions")
	// the update happens when the server turns to the second call: the first one has been answered
	conn.hookAt = cut[1]
	conn.hook = func() {
		pol := *env.nfs.policy.Load()
		switch what {
		case 0:
			vpReach("read-only-switched-on")
			pol.ReadOnly = true
		case 1:
			vpReach("client-removed-from-allow-list")
			pol.AllowedIPs = []string{"192.0.2.1"}
		case 2:
			vpReach("secure-switched-on")
			pol.Secure = true
		case 3:
			vpReach("rate-limiting-switched-on")
			cfg := DefaultRateLimiterConfig()
			cfg.GlobalRequestsPerSecond = 1000
			cfg.PerIPRequestsPerSecond, cfg.PerIPBurstSize = 1, 1
			cfg.PerConnectionRequestsPerSecond, cfg.PerConnectionBurstSize = 1000, 1000
			cfg.CleanupInterval = time.Hour
			pol.EnableRateLimiting = true
			pol.RateLimitConfig = &cfg
		case 4:
			vpReach("rate-limits-tightened")
			cfg := DefaultRateLimiterConfig()
			cfg.GlobalRequestsPerSecond = 1000
			cfg.PerIPRequestsPerSecond, cfg.PerIPBurstSize = 1000, 1000
			cfg.PerConnectionRequestsPerSecond, cfg.PerConnectionBurstSize = 1, 1
			cfg.CleanupInterval = time.Hour
			pol.EnableRateLimiting = true
			pol.RateLimitConfig = &cfg
		}
		if viaExport {
			// the same change made the documented way: edit the GetExportOptions snapshot, hand it back
			o := env.nfs.GetExportOptions()
			o.ReadOnly, o.AllowedIPs, o.Secure = pol.ReadOnly, pol.AllowedIPs, pol.Secure
			o.EnableRateLimiting, o.RateLimitConfig = pol.EnableRateLimiting, pol.RateLimitConfig
			vpAssert(env.nfs.UpdateExportOptions(o) == nil, "update-accepted")
		} else {
			vpAssert(env.nfs.UpdatePolicyOptions(pol) == nil, "update-accepted")
		}
	}
	env.fs.log = nil
	env.srv.handleConnectionWithRecordMarking(conn, env.h)
	_, out := conn.served()
	replies, ok := vpSplitRecords(out)
	vpAssert(vpAnd(ok, len(replies) == 3), "every-call-answered")
	if len(replies) != 3 {
		return
	}
	type res struct {
		accepted bool
		status   uint32
	}
	var r [3]res
	for k := range replies {
		rd := &vpRd{b: replies[k]}
		h := vpRPCReplyHeader(rd)
		vpAssert(h.xid == uint32(300+k), "xid")
		r[k].accepted = h.accepted && h.acceptStat == SUCCESS
		if r[k].accepted {
			r[k].status = rd.u32()
		}
	}
	// the first call ran under the old policy: nothing restricted it
	vpAssert(vpAnd(r[0].accepted, r[0].status == NFS_OK), "first-call-under-the-old-policy")
	vpAssert(fs.lookup("/d/n1") != nil, "first-call-performed")
	made2, made3 := fs.lookup("/d/n2") != nil, fs.lookup("/d/n3") != nil
	switch what {
	case 0:
		vpAssert(vpAnd(r[1].accepted, r[1].status == NFSERR_ROFS), "later-call-refused-by-new-read-only-policy")
		vpAssert(vpAnd(!made2, !made3), "nothing-modified-after-read-only-took-effect")
	case 1:
		vpAssert(vpAnd(!r[1].accepted, !r[2].accepted), "later-calls-denied-by-new-allow-list")
		vpAssert(vpAnd(!made2, !made3), "denied-calls-not-performed")
	case 2:
		if highPort {
			vpAssert(vpAnd(!r[1].accepted, !made2), "later-call-denied-by-new-secure-port-rule")
		} else {
			vpAssert(vpAnd(r[1].accepted, r[1].status == NFS_OK), "privileged-port-still-served")
		}
	case 4:
		// new per-connection burst of 1, no time passes: the connection's old, generous bucket does not count any more
		vpAssert(vpAnd(r[1].accepted, made2), "first-call-within-the-new-connection-limit-admitted")
		vpAssert(vpAnd(!r[2].accepted, !made3), "connection-opened-before-the-update-gets-the-new-connection-limit")
	case 3:
		// burst 1 per address and no time passes: exactly one of the two later calls is admitted
		vpAssert(vpAnd(r[1].accepted, made2), "first-call-within-the-new-limit-admitted")
		vpAssert(vpAnd(!r[2].accepted, !made3), "connection-opened-before-the-update-is-rate-limited")
	}
}
