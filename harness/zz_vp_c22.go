package absnfs

// C22 — data acknowledged as stable survives a crash (trace form: the
// durability obligation is asserted at the moment of the reply; every later
// crash point follows from it).

import "syscall"

func init() {
	vpRegister("VPH_C22_write_stable", VPH_C22_write_stable)
	vpRegister("VPH_C22_commit", VPH_C22_commit)
	vpRegister("VPH_C22_verifier", VPH_C22_verifier)
}

func vpDurableEqual(n *vpNode, off, cnt int) bool {
	if len(n.durable) < off+cnt {
		return false
	}
	ok := true
	for i := off; i < off+cnt; i++ {
		ok = vpAnd(ok, n.durable[i] == n.data[i])
	}
	return ok
}

func VPH_C22_write_stable() {
	fs := vpNewFS()
	fs.addDir("/d")
	n := fs.addFileData("/d/x", []byte("0123456789"))
	n.durable = append([]byte(nil), n.data...) // everything so far is on stable storage
	env := vpServer(fs, ExportOptions{})
	h := env.handleFor("/d/x")
	// the backend's fsync may fail (disk full, I/O error): data whose sync failed is not stable
	if vpBool("sync-fails") {
		vpReach("sync-fault")
		fs.failOp, fs.failErr = "Sync", vpErr("sync", "/d/x", syscall.EIO)
	}
	off := vpChoose("offset", 0, 12)
	cnt := vpChoose("count", 1, 4)
	data := vpBytes("data", cnt)
	stable := vpU32("stable")
	var b vpBuf
	b.fh(h).u64(uint64(off)).u32(uint32(cnt)).u32(stable).opaque(data)
	reply := env.call(NFSPROC3_WRITE, b.Bytes())
	rd := &vpRd{b: vpReplyBytes(reply)}
	status := rd.u32()
	vpAssume(status == NFS_OK)
	rd.wccData()
	written := int(vpConcreteU64(uint64(rd.u32())))
	committed := rd.u32()
	verf := rd.u64()
	vpAssert(rd.done(), "reply-shape")
	vpObserve("committed", committed)
	// the bytes are in the backend's volatile state
	for i := 0; i < written; i++ {
		vpAssert(n.data[off+i] == data[i], "data-stored")
	}
	// a client that asked for stable storage must not be told UNSTABLE
	vpAssert(vpImplies(stable != 0, committed != 0), "stable-request-not-downgraded")
	if committed == 2 { // FILE_SYNC
		vpReach("file-sync-reply")
		vpKnown("K-C22-no-sync-before-FILE_SYNC", true)
		// a crash right after this reply loses everything not synced: the written range must be durable
		vpAssert(vpDurableEqual(n, off, written), "FILE_SYNC-data-durable-at-reply")
	}
	_ = verf
}

func VPH_C22_commit() {
	fs := vpNewFS()
	fs.addDir("/d")
	n := fs.addFileData("/d/x", []byte("0123456789"))
	n.durable = []byte("0123") // the tail was written UNSTABLE earlier and is not yet on stable storage
	env := vpServer(fs, ExportOptions{})
	h := env.handleFor("/d/x")
	if vpBool("sync-fails") {
		vpReach("sync-fault")
		fs.failOp, fs.failErr = "Sync", vpErr("sync", "/d/x", syscall.EIO)
	}
	var b vpBuf
	b.fh(h).u64(vpU64("offset")).u32(vpU32("count"))
	reply := env.call(NFSPROC3_COMMIT, b.Bytes())
	rd := &vpRd{b: vpReplyBytes(reply)}
	status := rd.u32()
	vpAssume(status == NFS_OK)
	vpReach("commit-ok")
	// this server never replies UNSTABLE to a WRITE, so there is nothing a COMMIT could have left behind
	// unless a WRITE's FILE_SYNC claim was false; the obligation for COMMIT itself:
	vpKnown("K-C22-no-sync-before-FILE_SYNC", true)
	vpAssert(vpDurableEqual(n, 0, len(n.data)), "commit-makes-data-durable")
}

// VPH_C22_verifier: one verifier for the whole life of an instance, a different one for the next instance.
func VPH_C22_verifier() {
	t1 := vpI64("t1")
	t2 := vpI64("t2")
	vpAssume(vpAnd(t1 >= 0, t1 < 1<<60))
	vpAssume(vpAnd(t2 > t1, t2 < 1<<60)) // successively created: the clock has advanced
	mk := func(t int64) (*vpEnv, uint64) {
		vpSetClock(t)
		fs := vpNewFS()
		fs.addDir("/d")
		fs.addFileData("/d/x", []byte("0123456789"))
		env := vpServer(fs, ExportOptions{})
		return env, env.handleFor("/d/x")
	}
	verfOf := func(env *vpEnv, h uint64, write bool) uint64 {
		var b vpBuf
		var proc uint32
		if write {
			proc = NFSPROC3_WRITE
			b.fh(h).u64(0).u32(1).u32(2).opaque([]byte{7})
		} else {
			proc = NFSPROC3_COMMIT
			b.fh(h).u64(0).u32(0)
		}
		rd := &vpRd{b: vpReplyBytes(env.call(proc, b.Bytes()))}
		vpAssume(rd.u32() == NFS_OK)
		rd.wccData()
		if write {
			rd.u32()
			rd.u32()
		}
		v := rd.u64()
		vpAssert(rd.done(), "reply-shape")
		return v
	}
	e1, h1 := mk(t1)
	w1 := verfOf(e1, h1, true)
	vpSetClock(t1 + vpI64("later")&0xffffffff) // time passes during the instance's life
	// requests that fail in between do not end the instance's life: a WRITE the server refuses
	// (offset beyond a signed file offset) and one the backend fails (symbolic errno on WriteAt or Sync)
	switch vpChoose("failing-request-in-between", 0, 3) {
	case 1:
		vpReach("refused-write-in-between")
		var fb vpBuf
		fb.fh(h1).u64(1 << 63).u32(1).u32(2).opaque([]byte{9})
		e1.call(NFSPROC3_WRITE, fb.Bytes())
	case 2, 3:
		vpReach("backend-fault-in-between")
		errno := vpU32("errno")
		vpAssume(vpAnd(errno >= 1, errno <= 133))
		e1.fs.failOp, e1.fs.failErr = []string{"WriteAt", "Sync"}[vpChoose("failing-op", 0, 1)], vpErr("fault", "/d/x", syscall.Errno(errno))
		var fb vpBuf
		fb.fh(h1).u64(0).u32(1).u32(2).opaque([]byte{9})
		e1.call(NFSPROC3_WRITE, fb.Bytes())
		e1.fs.failOp, e1.fs.failErr = "", nil
	}
	c1 := verfOf(e1, h1, false)
	w1b := verfOf(e1, h1, true)
	vpAssert(vpAnd(w1 == c1, w1 == w1b), "verifier-constant-within-instance")
	e2, h2 := mk(t2)
	w2 := verfOf(e2, h2, true)
	vpAssert(w2 != w1, "verifier-differs-between-instances")
}
