package absnfs

// C04 — reported attributes are consistent across procedures and with the backend.

func init() {
	vpRegister("VPH_C04_replies", VPH_C04_replies)
	vpRegister("VPH_C04_setattr_then_use", VPH_C04_setattr_then_use)
	vpRegister("VPH_C04_new_objects", VPH_C04_new_objects)
	vpRegister("VPH_C04_mutate_then_observe", VPH_C04_mutate_then_observe)
	vpRegister("VPH_C04_long_paths", VPH_C04_long_paths)
	vpRegister("VPH_C04_wcc", VPH_C04_wcc)
}

func vpFtype(kind uint8) uint32 {
	switch kind {
	case vpKDir:
		return NF3DIR
	case vpKLink:
		return NF3LNK
	}
	return NF3REG
}

// vpAttrAgrees: a reply's fattr3 for path p agrees with the backend's lstat and the path's fileid.
func vpAttrAgrees(fs *vpFS, p string, a vpFattr, tag string) {
	n := fs.nodes[p]
	vpAssert(a.ftype == vpFtype(n.kind), tag+"-type-is-backend-type")
	vpAssert(a.fileid == vpFnv64a(p), tag+"-fileid-of-path")
	vpAssert(a.size == uint64(n.size), tag+"-size-is-backend-size")
	vpAssert(a.mode&0777 == n.perm&0777, tag+"-permission-bits-are-backend-bits")
}

type vpC04Tree struct {
	fs    *vpFS
	paths []string
}

// vpAttrTree: a directory with a regular file, a subdirectory, a symlink to the file and a dangling
// symlink, each with symbolic permission bits (and a symbolic size for the file).
func vpAttrTree() *vpFS {
	fs := vpNewFS()
	d := fs.addDir("/d")
	d.perm = vpU32("perm.d") & 0777
	f := fs.addFile("/d/f", 0)
	f.size = vpI64("size.f")
	vpAssume(vpAnd(f.size >= 0, f.size < 1<<40))
	f.perm = vpU32("perm.f") & 0777
	s := fs.addDir("/d/s")
	s.perm = vpU32("perm.s") & 0777
	fs.addLink("/d/l", "f")
	fs.addLink("/d/g", "nowhere") // dangling
	return fs
}

// VPH_C04_replies: every procedure that returns an object's attributes, on every kind of object,
// under every attribute-cache setting (TTL, capacity small enough to evict inside READDIRPLUS).
func VPH_C04_replies() {
	fs := vpAttrTree()
	opts := ExportOptions{EnableDirCache: vpBool("dircache")}
	opts.AttrCacheSize = vpChoose("attrcachesize", 1, 3)
	env := vpServer(fs, opts)
	objs := []string{"/d/f", "/d/s", "/d/l", "/d/g", "/d"}
	p := objs[vpChoose("object", 0, len(objs)-1)]
	hd := env.handleFor("/d")
	h := env.handleFor(p)
	if vpBool("expire-cache") {
		vpSetClock(1_000_000_000 + 3600*1_000_000_000)
	}
	var b vpBuf
	sel := vpChoose("proc", 0, 7)
	switch sel {
	case 0:
		vpReach("getattr")
		rd := &vpRd{b: vpReplyBytes(env.call(NFSPROC3_GETATTR, b.fh(h).Bytes()))}
		vpAssert(rd.u32() == NFS_OK, "getattr-ok")
		vpAttrAgrees(fs, p, rd.fattr(), "getattr")
	case 1:
		vpReach("lookup")
		if p == "/d" {
			vpAssume(false)
		}
		name := p[len("/d/"):]
		rd := &vpRd{b: vpReplyBytes(env.call(NFSPROC3_LOOKUP, b.fh(hd).str(name).Bytes()))}
		vpAssert(rd.u32() == NFS_OK, "lookup-ok")
		rd.opaque()
		a, ok := rd.postOp()
		vpAssert(ok, "lookup-object-attributes-follow")
		vpAttrAgrees(fs, p, a, "lookup")
		da, ok2 := rd.postOp()
		if ok2 {
			vpAttrAgrees(fs, "/d", da, "lookup-dir")
		}
	case 2:
		vpReach("access")
		rd := &vpRd{b: vpReplyBytes(env.call(NFSPROC3_ACCESS, b.fh(h).u32(0x3f).Bytes()))}
		vpAssert(rd.u32() == NFS_OK, "access-ok")
		a, ok := rd.postOp()
		vpAssert(ok, "access-attributes-follow")
		vpAttrAgrees(fs, p, a, "access")
	case 3:
		vpReach("read")
		if p != "/d/f" {
			vpAssume(false)
		}
		rd := &vpRd{b: vpReplyBytes(env.call(NFSPROC3_READ, b.fh(h).u64(0).u32(0).Bytes()))}
		vpAssert(rd.u32() == NFS_OK, "read-ok")
		a, ok := rd.postOp()
		vpAssert(ok, "read-attributes-follow")
		vpAttrAgrees(fs, p, a, "read")
	case 4:
		vpReach("readlink")
		if p != "/d/l" && p != "/d/g" {
			vpAssume(false)
		}
		rd := &vpRd{b: vpReplyBytes(env.call(NFSPROC3_READLINK, b.fh(h).Bytes()))}
		vpAssert(rd.u32() == NFS_OK, "readlink-ok")
		a, ok := rd.postOp()
		vpAssert(ok, "readlink-attributes-follow")
		vpAttrAgrees(fs, p, a, "readlink")
	case 5:
		vpReach("readdirplus")
		if p != "/d" {
			vpAssume(false)
		}
		rd := &vpRd{b: vpReplyBytes(env.call(NFSPROC3_READDIRPLUS, b.fh(hd).u64(0).raw(make([]byte, 8)).u32(8192).u32(32768).Bytes()))}
		vpAssert(rd.u32() == NFS_OK, "readdirplus-ok")
		da, ok := rd.postOp()
		vpAssert(ok, "readdirplus-dir-attributes-follow")
		vpAttrAgrees(fs, "/d", da, "readdirplus-dir")
		rd.u64()
		for {
			more := rd.u32()
			if more != 1 {
				break
			}
			fid := rd.u64()
			name := string(rd.opaque())
			rd.u64()
			a, ok := rd.postOp()
			if rd.u32() == 1 {
				rd.opaque()
			}
			vpAssert(!rd.bad, "readdirplus-entry-shape")
			q := "/d/" + name
			if _, known := fs.nodes[q]; !known {
				vpAssert(false, "readdirplus-unknown-entry")
				continue
			}
			if ok {
				vpKnown("K-C04-readdirplus-refresh-drops-fileid", true)
				vpAssert(a.fileid == vpFnv64a(q), "readdirplus-entry-fileid-of-path")
				vpAssert(fid == a.fileid, "readdirplus-entry-fileid-fields-agree")
				vpKnownClear()
				if fs.nodes[q].kind == vpKLink {
					vpKnown("K-C04-readdirplus-follows-symlinks", true)
				}
				vpAssert(a.ftype == vpFtype(fs.nodes[q].kind), "readdirplus-entry-type-is-backend-type")
				vpAssert(a.size == uint64(fs.nodes[q].size), "readdirplus-entry-size")
				vpAssert(a.mode&0777 == fs.nodes[q].perm&0777, "readdirplus-entry-permission-bits")
				vpKnownClear()
			}
		}
	case 6:
		vpReach("fsinfo-fsstat-pathconf")
		proc := []uint32{NFSPROC3_FSSTAT, NFSPROC3_FSINFO, NFSPROC3_PATHCONF}[vpChoose("which", 0, 2)]
		rd := &vpRd{b: vpReplyBytes(env.call(proc, b.fh(h).Bytes()))}
		vpAssert(rd.u32() == NFS_OK, "fs-proc-ok")
		a, ok := rd.postOp()
		vpAssert(ok, "fs-proc-attributes-follow")
		vpAttrAgrees(fs, p, a, "fs-proc")
	case 7:
		vpReach("setattr-wcc")
		// SETATTR changing nothing: the post-op attributes in wcc_data describe the same object
		rd := &vpRd{b: vpReplyBytes(env.call(NFSPROC3_SETATTR, b.fh(h).sattr(&vpSattr{}).u32(0).Bytes()))}
		st := rd.u32()
		if p == "/d/g" {
			// SETATTR on a dangling symlink follows the link in the backend; refusing it is legitimate
			vpAssume(st == NFS_OK)
		}
		vpAssert(st == NFS_OK, "setattr-ok")
		a, ok := rd.wccData()
		vpAssert(ok, "setattr-post-attributes-follow")
		vpAttrAgrees(fs, p, a, "setattr-wcc")
	}
}

// VPH_C04_setattr_then_use: SETATTR with any mode bits never changes an object's type or fileid:
// the handle keeps working as a directory / file afterwards and every later reply agrees.
func VPH_C04_setattr_then_use() {
	fs := vpAttrTree()
	env := vpServer(fs, ExportOptions{})
	objs := []string{"/d", "/d/f", "/d/s", "/d/l"}
	p := objs[vpChoose("object", 0, len(objs)-1)]
	h := env.handleFor(p)
	mode := vpU32("mode") & 07777
	var b vpBuf
	if fs.nodes[p].kind == vpKLink {
		// a symbolic link (whose target exists): only its times are set
		rd := &vpRd{b: vpReplyBytes(env.call(NFSPROC3_SETATTR, b.fh(h).sattr(&vpSattr{setMtime: 2, mtimeSec: vpU32("mtime"), setAtime: uint32(vpChoose("atime-how", 0, 1))}).u32(0).Bytes()))}
		if rd.u32() != NFS_OK {
			return // whether times of a link can be set is the backend's business
		}
		vpReach("symlink")
		if a, ok := rd.wccData(); ok {
			vpAssert(a.ftype == NF3LNK, "setattr-reply-keeps-type")
			vpAssert(a.fileid == vpFnv64a(p), "setattr-reply-keeps-fileid")
		}
		// the handle is still a link's: READLINK works, and every reply carrying its attributes says link
		var g vpBuf
		rg := &vpRd{b: vpReplyBytes(env.call(NFSPROC3_GETATTR, g.fh(h).Bytes()))}
		vpAssert(rg.u32() == NFS_OK, "getattr-ok")
		vpAttrAgrees(fs, p, rg.fattr(), "getattr-after-setattr")
		var r vpBuf
		rr := &vpRd{b: vpReplyBytes(env.call(NFSPROC3_READLINK, r.fh(h).Bytes()))}
		vpAssert(rr.u32() == NFS_OK, "link-handle-still-readable-as-a-link")
		if ra, ok := rr.postOp(); ok {
			vpAttrAgrees(fs, p, ra, "readlink-after-setattr")
		}
		var l vpBuf
		rl := &vpRd{b: vpReplyBytes(env.call(NFSPROC3_LOOKUP, l.fh(h).str("zz").Bytes()))}
		vpAssert(rl.u32() == NFSERR_NOTDIR, "link-handle-is-not-a-directory")
		if la, ok := rl.postOp(); ok {
			vpAttrAgrees(fs, p, la, "lookup-through-link-after-setattr")
		}
		return
	}
	rd := &vpRd{b: vpReplyBytes(env.call(NFSPROC3_SETATTR, b.fh(h).sattr(&vpSattr{setMode: true, mode: mode}).u32(0).Bytes()))}
	vpAssert(rd.u32() == NFS_OK, "setattr-mode-ok")
	a, ok := rd.wccData()
	vpAssert(ok, "post-attributes-follow")
	vpAssert(a.ftype == vpFtype(fs.nodes[p].kind), "setattr-reply-keeps-type")
	vpAssert(a.fileid == vpFnv64a(p), "setattr-reply-keeps-fileid")
	vpAssert(fs.nodes[p].perm&0777 == mode&0777, "backend-mode-set")
	// a following GETATTR through the same handle
	var g vpBuf
	rg := &vpRd{b: vpReplyBytes(env.call(NFSPROC3_GETATTR, g.fh(h).Bytes()))}
	vpAssert(rg.u32() == NFS_OK, "getattr-ok")
	vpAttrAgrees(fs, p, rg.fattr(), "getattr-after-setattr")
	// and the handle still behaves as the same kind of object
	vpKnown("K-C04-setattr-mode-drops-type-in-handle", true)
	if fs.nodes[p].kind == vpKDir {
		vpReach("directory")
		child := "f"
		if p == "/d/s" {
			child = "zz"
		}
		var l vpBuf
		rl := &vpRd{b: vpReplyBytes(env.call(NFSPROC3_LOOKUP, l.fh(h).str(child).Bytes()))}
		st := rl.u32()
		vpAssert(st != NFSERR_NOTDIR, "directory-handle-still-a-directory-for-lookup")
		var r vpBuf
		rr := &vpRd{b: vpReplyBytes(env.call(NFSPROC3_READDIR, r.fh(h).u64(0).raw(make([]byte, 8)).u32(4096).Bytes()))}
		vpAssert(rr.u32() == NFS_OK, "directory-handle-still-a-directory-for-readdir")
	} else {
		vpReach("file")
		var r vpBuf
		rr := &vpRd{b: vpReplyBytes(env.call(NFSPROC3_READ, r.fh(h).u64(0).u32(0).Bytes()))}
		vpAssert(rr.u32() == NFS_OK, "file-handle-still-readable")
		ra, ok := rr.postOp()
		if ok {
			vpAttrAgrees(fs, p, ra, "read-after-setattr")
		}
	}
}

// VPH_C04_new_objects: the attributes in CREATE / MKDIR / SYMLINK results describe the new object.
func VPH_C04_new_objects() {
	fs := vpStdTree()
	env := vpServer(fs, ExportOptions{})
	hd := env.handleFor("/d")
	mode := vpU32("mode") & 0777
	s := &vpSattr{setMode: true, mode: mode}
	var b vpBuf
	var proc uint32
	var kind uint8
	switch vpChoose("proc", 0, 2) {
	case 0:
		proc, kind = NFSPROC3_CREATE, vpKFile
		b.fh(hd).str("new").u32(0).sattr(s)
	case 1:
		proc, kind = NFSPROC3_MKDIR, vpKDir
		b.fh(hd).str("new").sattr(s)
	case 2:
		proc, kind = NFSPROC3_SYMLINK, vpKLink
		b.fh(hd).str("new").sattr(s).str("x")
	}
	rd := &vpRd{b: vpReplyBytes(env.call(proc, b.Bytes()))}
	vpAssert(rd.u32() == NFS_OK, "create-ok")
	vpAssert(rd.u32() == 1, "handle-follows")
	rd.opaque()
	a, ok := rd.postOp()
	vpAssert(ok, "object-attributes-follow")
	vpAssert(a.ftype == vpFtype(kind), "new-object-type")
	vpAttrAgrees(fs, "/d/new", a, "new-object")
	da, ok2 := rd.wccData()
	if ok2 {
		vpAttrAgrees(fs, "/d", da, "parent-after-create")
	}
	vpAssert(rd.done(), "reply-shape")
}

// VPH_C04_mutate_then_observe: a request that changes an object (its size, its mode, or the object
// itself: the name removed and made again as a directory or a symlink) on a server whose caches
// and handle table already know the old object, followed by any attribute-carrying request for the
// same name: what is reported afterwards is the object as the backend has it now.
func VPH_C04_mutate_then_observe() {
	fs := vpAttrTree()
	env := vpServer(fs, ExportOptions{EnableDirCache: vpBool("dircache")})
	hd := env.handleFor("/d")
	h := env.handleFor("/d/f") // also warms the attribute cache for /d/f
	if vpBool("listing-warm") {
		var w vpBuf
		env.call(NFSPROC3_READDIRPLUS, w.fh(hd).u64(0).raw(make([]byte, 8)).u32(8192).u32(32768).Bytes())
	}
	ok := func(r *RPCReply) *vpRd {
		rd := &vpRd{b: vpReplyBytes(r)}
		vpAssume(rd.u32() == NFS_OK)
		return rd
	}
	issued := func(rd *vpRd) uint64 { // handle in a CREATE / MKDIR / SYMLINK result
		vpAssert(rd.u32() == 1, "handle-follows")
		return (&vpRd{b: rd.opaque()}).u64()
	}
	var b vpBuf
	switch vpChoose("mutation", 0, 5) {
	case 0:
		vpReach("write")
		off := uint64(vpChoose("woff", 0, 3))
		vpAssume(fs.nodes["/d/f"].size <= 2) // so that the write really extends the file on some paths
		ok(env.call(NFSPROC3_WRITE, b.fh(h).u64(off).u32(2).u32(2).opaque([]byte{1, 2}).Bytes()))
	case 1:
		vpReach("setattr-size")
		sz := vpU64("newsize")
		vpAssume(sz < 1<<40)
		ok(env.call(NFSPROC3_SETATTR, b.fh(h).sattr(&vpSattr{setSize: true, size: sz}).u32(0).Bytes()))
	case 2:
		vpReach("setattr-mode")
		ok(env.call(NFSPROC3_SETATTR, b.fh(h).sattr(&vpSattr{setMode: true, mode: vpU32("newmode") & 0777}).u32(0).Bytes()))
	case 3:
		vpReach("create-unchecked-with-size")
		sz := vpU64("createsize")
		vpAssume(sz < 1<<40)
		rd := ok(env.call(NFSPROC3_CREATE, b.fh(hd).str("f").u32(0).sattr(&vpSattr{setSize: true, size: sz}).Bytes()))
		h = issued(rd)
	case 4:
		vpReach("replaced-by-directory")
		ok(env.call(NFSPROC3_REMOVE, b.fh(hd).str("f").Bytes()))
		var m vpBuf
		h = issued(ok(env.call(NFSPROC3_MKDIR, m.fh(hd).str("f").sattr(&vpSattr{}).Bytes())))
	case 5:
		vpReach("replaced-by-symlink")
		ok(env.call(NFSPROC3_REMOVE, b.fh(hd).str("f").Bytes()))
		var m vpBuf
		h = issued(ok(env.call(NFSPROC3_SYMLINK, m.fh(hd).str("f").sattr(&vpSattr{}).str("s").Bytes())))
	}
	var o vpBuf
	switch vpChoose("observe", 0, 4) {
	case 0:
		rd := &vpRd{b: vpReplyBytes(env.call(NFSPROC3_GETATTR, o.fh(h).Bytes()))}
		vpAssert(rd.u32() == NFS_OK, "getattr-after-ok")
		vpAttrAgrees(fs, "/d/f", rd.fattr(), "getattr-after")
	case 1:
		rd := &vpRd{b: vpReplyBytes(env.call(NFSPROC3_LOOKUP, o.fh(hd).str("f").Bytes()))}
		vpAssert(rd.u32() == NFS_OK, "lookup-after-ok")
		rd.opaque()
		a, follows := rd.postOp()
		vpAssert(follows, "lookup-after-attributes-follow")
		vpAttrAgrees(fs, "/d/f", a, "lookup-after")
	case 2:
		rd := &vpRd{b: vpReplyBytes(env.call(NFSPROC3_ACCESS, o.fh(h).u32(0x3f).Bytes()))}
		vpAssert(rd.u32() == NFS_OK, "access-after-ok")
		a, follows := rd.postOp()
		vpAssert(follows, "access-after-attributes-follow")
		vpAttrAgrees(fs, "/d/f", a, "access-after")
	case 3:
		rd := &vpRd{b: vpReplyBytes(env.call(NFSPROC3_READDIRPLUS, o.fh(hd).u64(0).raw(make([]byte, 8)).u32(8192).u32(32768).Bytes()))}
		vpAssert(rd.u32() == NFS_OK, "readdirplus-after-ok")
		rd.postOp()
		rd.u64()
		seen := false
		for rd.u32() == 1 {
			rd.u64()
			name := string(rd.opaque())
			rd.u64()
			a, follows := rd.postOp()
			if rd.u32() == 1 {
				rd.opaque()
			}
			if rd.bad {
				break
			}
			if name == "f" {
				seen = true
				if follows {
					vpAttrAgrees(fs, "/d/f", a, "readdirplus-after")
				}
			}
		}
		vpAssert(seen, "readdirplus-after-lists-the-name")
	case 4:
		// a request that takes the object's type from the handle's node: LOOKUP inside it
		rd := &vpRd{b: vpReplyBytes(env.call(NFSPROC3_LOOKUP, o.fh(h).str("zz").Bytes()))}
		st := rd.u32()
		if fs.nodes["/d/f"].kind == vpKDir {
			vpAssert(st == NFSERR_NOENT, "new-directory-is-a-directory-for-lookup")
			if a, follows := rd.postOp(); follows {
				vpAttrAgrees(fs, "/d/f", a, "lookup-dir-attributes-after")
			}
		} else {
			vpAssert(st == NFSERR_NOTDIR, "non-directory-is-not-a-directory-for-lookup")
		}
	}
}

// VPH_C04_long_paths: the same agreement for objects deep in the tree, whose full path is far longer
// than any single name may be (components of 120, 120 and 64 bytes: paths of 121, 242 and 307 bytes):
// LOOKUP, GETATTR, ACCESS and READDIRPLUS report the same fileid - the one of the full path - and the
// backend's type, size and permission bits.
func VPH_C04_long_paths() {
	rep := func(c byte, n int) string {
		b := make([]byte, n)
		for i := range b {
			b[i] = c
		}
		return string(b)
	}
	fs := vpNewFS()
	p1 := "/" + rep('a', 120)
	p2 := p1 + "/" + rep('b', 120)
	fs.addDir(p1)
	fs.addDir(p2)
	depth := vpChoose("depth", 1, 3)
	dir, name := "/", rep('a', 120)
	switch depth {
	case 2:
		dir, name = p1, rep('b', 120)
	case 3:
		dir, name = p2, rep('c', 64)
		f := fs.addFile(p2+"/"+name, 0)
		f.size = vpI64("size")
		vpAssume(vpAnd(f.size >= 0, f.size < 1<<40))
		f.perm = vpU32("perm") & 0777
	}
	full := dir + "/" + name
	if dir == "/" {
		full = "/" + name
	}
	env := vpServer(fs, ExportOptions{})
	hdir := env.handleFor(dir)
	var l vpBuf
	rd := &vpRd{b: vpReplyBytes(env.call(NFSPROC3_LOOKUP, l.fh(hdir).str(name).Bytes()))}
	vpAssert(rd.u32() == NFS_OK, "long-lookup-ok")
	h := (&vpRd{b: rd.opaque()}).u64()
	a, ok := rd.postOp()
	vpAssert(ok, "long-lookup-attributes-follow")
	vpAttrAgrees(fs, full, a, "long-lookup")
	if vpBool("cache-expired") {
		vpSetClock(1_000_000_000 + 3600*1_000_000_000)
	}
	var g vpBuf
	rg := &vpRd{b: vpReplyBytes(env.call(NFSPROC3_GETATTR, g.fh(h).Bytes()))}
	vpAssert(rg.u32() == NFS_OK, "long-getattr-ok")
	vpAttrAgrees(fs, full, rg.fattr(), "long-getattr")
	var c vpBuf
	rc := &vpRd{b: vpReplyBytes(env.call(NFSPROC3_ACCESS, c.fh(h).u32(0x3f).Bytes()))}
	vpAssert(rc.u32() == NFS_OK, "long-access-ok")
	if ca, follows := rc.postOp(); follows {
		vpAttrAgrees(fs, full, ca, "long-access")
	}
	var p vpBuf
	rp := &vpRd{b: vpReplyBytes(env.call(NFSPROC3_READDIRPLUS, p.fh(hdir).u64(0).raw(make([]byte, 8)).u32(8192).u32(32768).Bytes()))}
	vpAssert(rp.u32() == NFS_OK, "long-readdirplus-ok")
	rp.postOp()
	rp.u64()
	for rp.u32() == 1 {
		fid := rp.u64()
		nm := string(rp.opaque())
		rp.u64()
		ea, follows := rp.postOp()
		if rp.u32() == 1 {
			rp.opaque()
		}
		if rp.bad {
			break
		}
		if nm == name {
			vpAssert(fid == vpFnv64a(full), "long-readdirplus-fileid")
			if follows {
				vpAttrAgrees(fs, full, ea, "long-readdirplus")
			}
		}
	}
	vpReach("long-path")
}

// VPH_C04_wcc: the post-operation attributes in the wcc_data of every mutating procedure describe
// the directory (or file) that wcc_data is about: CREATE, MKDIR, SYMLINK, REMOVE and RMDIR in /d,
// RENAME within /d or from /d into its subdirectory (fromdir_wcc and todir_wcc), WRITE on the file.
func VPH_C04_wcc() {
	fs := vpAttrTree()
	fs.addAbsent("/d/n")
	fs.addAbsent("/d/s/n")
	env := vpServer(fs, ExportOptions{EnableDirCache: vpBool("dircache")})
	hd, hs, hf := env.handleFor("/d"), env.handleFor("/d/s"), env.handleFor("/d/f")
	if vpBool("expire-cache") {
		vpSetClock(1_000_000_000 + 3600*1_000_000_000)
	}
	wcc := func(rd *vpRd, dir, tag string) {
		a, ok := rd.wccData()
		vpAssert(!rd.bad, tag+"-wcc-shape")
		if ok {
			vpReach("post-op-attributes-present")
			vpAttrAgrees(fs, dir, a, tag)
		}
	}
	var b vpBuf
	sel := vpChoose("proc", 0, 6)
	switch sel {
	case 0, 1, 2:
		var rd *vpRd
		switch sel {
		case 0:
			rd = &vpRd{b: vpReplyBytes(env.call(NFSPROC3_CREATE, b.fh(hd).str("n").u32(0).sattr(&vpSattr{}).Bytes()))}
		case 1:
			rd = &vpRd{b: vpReplyBytes(env.call(NFSPROC3_MKDIR, b.fh(hd).str("n").sattr(&vpSattr{}).Bytes()))}
		default:
			rd = &vpRd{b: vpReplyBytes(env.call(NFSPROC3_SYMLINK, b.fh(hd).str("n").sattr(&vpSattr{}).str("f").Bytes()))}
		}
		vpAssert(rd.u32() == NFS_OK, "made")
		if rd.u32() == 1 {
			rd.opaque()
		}
		if a, ok := rd.postOp(); ok {
			vpAttrAgrees(fs, "/d/n", a, "new-object")
		}
		wcc(rd, "/d", "dir-wcc-after-making")
	case 3:
		rd := &vpRd{b: vpReplyBytes(env.call(NFSPROC3_REMOVE, b.fh(hd).str("f").Bytes()))}
		vpAssert(rd.u32() == NFS_OK, "removed")
		wcc(rd, "/d", "dir-wcc-after-remove")
	case 4:
		rd := &vpRd{b: vpReplyBytes(env.call(NFSPROC3_RMDIR, b.fh(hd).str("s").Bytes()))}
		vpAssert(rd.u32() == NFS_OK, "rmdir-done")
		wcc(rd, "/d", "dir-wcc-after-rmdir")
	case 5:
		across := vpBool("into-subdirectory")
		to, todir := hd, "/d"
		if across {
			to, todir = hs, "/d/s"
			vpReach("rename-across-directories")
		}
		rd := &vpRd{b: vpReplyBytes(env.call(NFSPROC3_RENAME, b.fh(hd).str("f").fh(to).str("n").Bytes()))}
		vpAssert(rd.u32() == NFS_OK, "renamed")
		wcc(rd, "/d", "fromdir-wcc")
		wcc(rd, todir, "todir-wcc")
	case 6:
		rd := &vpRd{b: vpReplyBytes(env.call(NFSPROC3_WRITE, b.fh(hf).u64(0).u32(2).u32(2).opaque([]byte{1, 2}).Bytes()))}
		vpAssert(rd.u32() == NFS_OK, "written")
		wcc(rd, "/d/f", "file-wcc")
	}
}
