package absnfs

// C11 — only an effective root identity can assign ownership.

import "bytes"

func init() {
	vpRegister("VPH_C11_setattr", VPH_C11_setattr)
	vpRegister("VPH_C11_newobjects", VPH_C11_newobjects)
	vpRegister("VPH_C11_connection", VPH_C11_connection)
}

// VPH_C11_connection: new objects get the identity of the caller of *that* call, also when an
// earlier call on the same connection came from someone else (real connection loop; the body is
// shared with C10's connection harness, whose observable is exactly the backend's chown).
func VPH_C11_connection() { VPH_C10_connection() }

// vpCaller is a symbolic caller: credential flavor (AUTH_NONE or AUTH_SYS), wire uid/gid, and the
// export's squash mode. eff() is the effective identity the statement of C10 prescribes for it
// (reference, written from the statement); the requests themselves go through the real HandleCall,
// so the identity the handlers act under is whatever the real authentication path hands them.
type vpCaller struct {
	flavor   uint32
	uid, gid uint32
	squash   string
}

func vpDrawCaller() vpCaller {
	c := vpCaller{flavor: AUTH_SYS, uid: vpU32("uid"), gid: vpU32("gid")}
	if vpBool("auth-none") {
		c.flavor = AUTH_NONE
		vpReach("auth-none")
	}
	c.squash = []string{"none", "root", "all"}[vpChoose("squash", 0, 2)]
	return c
}

func (c vpCaller) eff() (uint32, uint32) {
	if c.flavor == AUTH_NONE || c.squash == "all" {
		return 65534, 65534
	}
	if c.squash == "root" {
		uid := vpIteU32(c.uid == 0, 65534, c.uid)
		gid := vpIteU32(vpOr(c.uid == 0, c.gid == 0), 65534, c.gid)
		return uid, gid
	}
	return c.uid, c.gid
}

// call sends one NFS request as this caller through HandleCall and returns the result bytes.
func (c vpCaller) call(env *vpEnv, proc uint32, body []byte) []byte {
	call := &RPCCall{Header: RPCMsgHeader{Xid: 5, MsgType: RPC_CALL, RPCVersion: 2, Program: NFS_PROGRAM, Version: NFS_V3, Procedure: proc},
		Credential: RPCCredential{Flavor: c.flavor}}
	if c.flavor == AUTH_SYS {
		call.Credential.Body = vpAuthSysBody(1, "h", c.uid, c.gid, nil)
	}
	reply, err := env.h.HandleCall(call, bytes.NewReader(body), &AuthContext{ClientIP: "127.0.0.1", ClientPort: 700, Credential: &call.Credential})
	vpAssert(vpAnd(err == nil, reply != nil), "answered")
	vpAssert(reply.Status == MSG_ACCEPTED, "caller-admitted")
	return vpReplyBytes(reply)
}

func vpChownsOK(fs *vpFS, euid, egid uint32) bool {
	ok := true
	for _, c := range fs.log {
		if c.op == "Chown" || c.op == "Lchown" {
			ok = vpAnd(ok, vpAnd(c.a == int64(euid), c.b == int64(egid)))
		}
	}
	return ok
}

func VPH_C11_setattr() {
	fs := vpStdTree()
	who := vpDrawCaller()
	env := vpServer(fs, ExportOptions{Squash: who.squash})
	which := vpChoose("object", 0, 2)
	var h uint64
	var p string
	switch which {
	case 0:
		p = "/d/x"
	case 1:
		p = "/d"
	case 2:
		p = "/d/l"
	}
	h = env.handleFor(p)
	node, _ := env.h.lookupNode(h)
	ouid, ogid := vpU32("owner-uid"), vpU32("owner-gid")
	node.attrs.Uid, node.attrs.Gid = ouid, ogid
	fs.nodes[p].uid, fs.nodes[p].gid = ouid, ogid
	env.clearCaches()
	euid, egid := who.eff()
	s := &vpSattr{setUID: vpBool("setuid"), setGID: vpBool("setgid"), uid: vpU32("sattr-uid"), gid: vpU32("sattr-gid"), setMode: vpBool("setmode"), mode: vpU32("mode") & 0777}
	var b vpBuf
	b.fh(h).sattr(s).u32(0)
	env.fs.log = nil
	who.call(env, NFSPROC3_SETATTR, b.Bytes())
	if euid != 0 {
		vpReach("non-root")
		// the backend never records an owner/group other than the caller's own
		vpAssert(vpChownsOK(env.fs, euid, egid), "non-root-chown-only-to-self")
		n := fs.nodes[p]
		vpAssert(vpOr(vpAnd(n.uid == ouid, n.gid == ogid), vpAnd(n.uid == euid, n.gid == egid)), "owner-unchanged-or-self")
	} else {
		vpReach("root")
	}
}

func VPH_C11_newobjects() {
	fs := vpStdTree()
	who := vpDrawCaller()
	env := vpServer(fs, ExportOptions{Squash: who.squash})
	hd := env.handleFor("/d")
	euid, egid := who.eff()
	g := &vpGen{}
	s := g.sattr("sattr")
	s.mode &= 0777
	procSel := vpChoose("proc", 0, 2)
	var b vpBuf
	var proc uint32
	switch procSel {
	case 0:
		proc = NFSPROC3_CREATE
		if how := vpChoose("how", 0, 2); how == 2 {
			// EXCLUSIVE: a verifier instead of attributes - nothing names an owner, so the caller is it
			b.fh(hd).str("new").u32(2).raw(vpBytes("verf", 8))
			s.setUID, s.setGID = false, false
			vpReach("create-exclusive")
		} else {
			b.fh(hd).str("new").u32(uint32(how)).sattr(s)
		}
		vpReach("create")
	case 1:
		proc = NFSPROC3_MKDIR
		b.fh(hd).str("new").sattr(s)
		vpReach("mkdir")
	case 2:
		proc = NFSPROC3_SYMLINK
		b.fh(hd).str("new").sattr(s).str("x")
		vpReach("symlink")
	}
	env.fs.log = nil
	rd := &vpRd{b: who.call(env, proc, b.Bytes())}
	status := rd.u32()
	vpAssume(status == NFS_OK)
	n := fs.nodes["/d/new"]
	vpAssert(n.exists, "created")
	wantUID, wantGID := euid, egid
	if euid == 0 {
		wantUID = vpIteU32(s.setUID, s.uid, euid)
		wantGID = vpIteU32(s.setGID, s.gid, egid)
	} else {
		vpAssert(vpChownsOK(env.fs, euid, egid), "non-root-chown-only-to-self")
	}
	if proc == NFSPROC3_CREATE {
		vpKnown("K-C11-create-no-chown", vpOr(wantUID != 0, wantGID != 0))
	}
	vpAssert(vpAnd(n.uid == wantUID, n.gid == wantGID), "new-object-owned-by-caller")
}
