package absnfs

// C11 — only an effective root identity can assign ownership.

func init() {
	vpRegister("VPH_C11_setattr", VPH_C11_setattr)
	vpRegister("VPH_C11_newobjects", VPH_C11_newobjects)
}

// vpEffective runs the real squashing on a symbolic credential and installs the result.
func vpEffective(env *vpEnv) (uint32, uint32) {
	uid, gid := vpU32("uid"), vpU32("gid")
	var squash string
	switch vpChoose("squash", 0, 2) {
	case 0:
		squash = "none"
	case 1:
		squash = "root"
	case 2:
		squash = "all"
	}
	env.auth.AuthSys = &AuthSysCredential{UID: uid, GID: gid}
	res := ValidateAuthentication(env.auth, &PolicyOptions{Squash: squash})
	vpAssume(res.Allowed)
	env.auth.EffectiveUID, env.auth.EffectiveGID = res.UID, res.GID
	return res.UID, res.GID
}

func vpChownsOK(fs *vpFS, euid, egid uint32) bool {
	ok := true
	for _, c := range fs.log {
		if c.op == "Chown" || c.op == "Lchown" {
			ok = vpAnd(ok, vpAnd(c.a == int64(euid), c.b == int64(egid)))
		}
	}
	return ok
}

func VPH_C11_setattr() {
	fs := vpStdTree()
	env := vpServer(fs, ExportOptions{})
	which := vpChoose("object", 0, 2)
	var h uint64
	var p string
	switch which {
	case 0:
		p = "/d/x"
	case 1:
		p = "/d"
	case 2:
		p = "/d/l"
	}
	h = env.handleFor(p)
	node, _ := env.h.lookupNode(h)
	ouid, ogid := vpU32("owner-uid"), vpU32("owner-gid")
	node.attrs.Uid, node.attrs.Gid = ouid, ogid
	fs.nodes[p].uid, fs.nodes[p].gid = ouid, ogid
	env.clearCaches()
	euid, egid := vpEffective(env)
	s := &vpSattr{setUID: vpBool("setuid"), setGID: vpBool("setgid"), uid: vpU32("sattr-uid"), gid: vpU32("sattr-gid"), setMode: vpBool("setmode"), mode: vpU32("mode") & 0777}
	var b vpBuf
	b.fh(h).sattr(s).u32(0)
	env.fs.log = nil
	reply := env.call(NFSPROC3_SETATTR, b.Bytes())
	vpAssert(reply != nil, "reply")
	if euid != 0 {
		vpReach("non-root")
		// the backend never records an owner/group other than the caller's own
		vpAssert(vpChownsOK(env.fs, euid, egid), "non-root-chown-only-to-self")
		n := fs.nodes[p]
		vpAssert(vpOr(vpAnd(n.uid == ouid, n.gid == ogid), vpAnd(n.uid == euid, n.gid == egid)), "owner-unchanged-or-self")
	} else {
		vpReach("root")
	}
}

func VPH_C11_newobjects() {
	fs := vpStdTree()
	env := vpServer(fs, ExportOptions{})
	hd := env.handleFor("/d")
	euid, egid := vpEffective(env)
	g := &vpGen{}
	s := g.sattr("sattr")
	s.mode &= 0777
	procSel := vpChoose("proc", 0, 2)
	var b vpBuf
	var proc uint32
	switch procSel {
	case 0:
		proc = NFSPROC3_CREATE
		b.fh(hd).str("new").u32(uint32(vpChoose("how", 0, 1))).sattr(s)
		vpReach("create")
	case 1:
		proc = NFSPROC3_MKDIR
		b.fh(hd).str("new").sattr(s)
		vpReach("mkdir")
	case 2:
		proc = NFSPROC3_SYMLINK
		b.fh(hd).str("new").sattr(s).str("x")
		vpReach("symlink")
	}
	env.fs.log = nil
	reply := env.call(proc, b.Bytes())
	rd := &vpRd{b: vpReplyBytes(reply)}
	status := rd.u32()
	vpAssume(status == NFS_OK)
	n := fs.nodes["/d/new"]
	vpAssert(n.exists, "created")
	wantUID, wantGID := euid, egid
	if euid == 0 {
		wantUID = vpIteU32(s.setUID, s.uid, euid)
		wantGID = vpIteU32(s.setGID, s.gid, egid)
	} else {
		vpAssert(vpChownsOK(env.fs, euid, egid), "non-root-chown-only-to-self")
	}
	if proc == NFSPROC3_CREATE {
		vpKnown("K-C11-create-no-chown", vpOr(wantUID != 0, wantGID != 0))
	}
	vpAssert(vpAnd(n.uid == wantUID, n.gid == wantGID), "new-object-owned-by-caller")
}
