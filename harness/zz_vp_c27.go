package absnfs

// C27 — portmapper: registry semantics and loopback-only modification.

import "fmt"

func init() {
	vpRegister("VPH_C27_call", VPH_C27_call)
}

type vpAddr struct{ s string }

func (a vpAddr) Network() string { return "tcp" }
func (a vpAddr) String() string  { return a.s }

type vpRemote struct {
	text     string
	host     string
	ip       []byte // what ParseIP(host) yields (nil = unparsable)
	loopback bool
}

var vpRemotes = []vpRemote{
	{"127.0.0.1:999", "127.0.0.1", []byte{0, 0, 0, 0, 0, 0, 0, 0, 0, 0, 0xff, 0xff, 127, 0, 0, 1}, true},
	{"[::1]:999", "::1", []byte{0, 0, 0, 0, 0, 0, 0, 0, 0, 0, 0, 0, 0, 0, 0, 1}, true},
	{"10.0.0.9:999", "10.0.0.9", []byte{0, 0, 0, 0, 0, 0, 0, 0, 0, 0, 0xff, 0xff, 10, 0, 0, 9}, false},
	{"[2001:db8::1]:999", "2001:db8::1", []byte{0x20, 0x01, 0x0d, 0xb8, 0, 0, 0, 0, 0, 0, 0, 0, 0, 0, 0, 1}, false},
	{"[fe80::1%eth0]:999", "fe80::1%eth0", nil, false}, // zone-scoped link-local: net.ParseIP rejects the zone
}

type vpMap struct{ prog, vers, prot, port uint32 }

func vpFind(ms []vpMap, prog, vers, prot uint32) int {
	for i := range ms {
		if ms[i].prog == prog && ms[i].vers == vers && ms[i].prot == prot {
			return i
		}
	}
	return -1
}

func vpSameRegistry(pm *Portmapper, ms []vpMap) bool {
	got := pm.GetMappings()
	if len(got) != len(ms) {
		return false
	}
	ok := true
	for i := range ms {
		g := got[i]
		ok = vpAnd(ok, vpAnd(vpAnd(g.Program == ms[i].prog, g.Version == ms[i].vers), vpAnd(g.Protocol == ms[i].prot, g.Port == ms[i].port)))
	}
	return ok
}

func VPH_C27_call() {
	for _, r := range vpRemotes {
		vpStubIP(r.host, r.ip)
	}
	pm := NewPortmapper()
	pm.SetListenAddr("192.0.2.7")
	ports := []uint32{111, 2049, 65535}
	var model []vpMap
	maxReg := 1
	if vpTier() == 1 {
		maxReg = 2
	}
	n := vpChoose("registered", 0, maxReg)
	for i := 0; i < n; i++ {
		m := vpMap{prog: vpU32("prog"), vers: vpU32("vers"), prot: []uint32{IPPROTO_TCP, IPPROTO_UDP}[vpChoose("prot", 0, 1)], port: ports[vpChoose("port", 0, 2)]}
		if vpFind(model, m.prog, m.vers, m.prot) >= 0 {
			vpAssume(false) // distinct keys
		}
		pm.RegisterService(m.prog, m.vers, m.prot, m.port)
		model = append(model, m)
	}
	before := append([]vpMap(nil), model...)

	xid := vpU32("xid")
	versSel := vpChoose("version", 0, 3)
	version := []uint32{2, 3, 4, 0}[versSel]
	if versSel == 3 {
		version = vpU32("otherversion")
		vpAssume(vpAnd(version != 2, vpAnd(version != 3, version != 4)))
	}
	proc := uint32(vpChoose("proc", 0, 5))
	aprog, avers, aprot := vpU32("a.prog"), vpU32("a.vers"), vpU32("a.prot")
	// menus are only drawn where the procedure looks at them
	modify := proc == 1 || proc == 2
	remote := vpRemotes[0]
	if modify {
		remote = vpRemotes[vpChoose("remote", 0, len(vpRemotes)-1)]
	}
	aport := ports[0]
	if version == 2 && proc == 1 {
		aport = ports[vpChoose("a.port", 0, 2)]
	}
	netid, uaddr := "tcp", ""
	if version != 2 && (modify || proc == 3) {
		netid = []string{"tcp", "tcp6", "udp", "udp6", "other"}[vpChoose("netid", 0, 4)]
	}
	if version != 2 && proc == 1 {
		uaddr = []string{"0.0.0.0.8.1", "10.0.0.1.0.111", "", "garbage"}[vpChoose("uaddr", 0, 3)]
	}

	var b vpBuf
	b.u32(xid).u32(RPC_CALL).u32(2).u32(PortmapperProgram).u32(version).u32(proc)
	b.u32(AUTH_NONE).u32(0).u32(AUTH_NONE).u32(0)
	if version == 2 {
		b.u32(aprog).u32(avers).u32(aprot).u32(aport)
	} else {
		b.u32(aprog).u32(avers).str(netid).str(uaddr).str("owner")
	}
	reply, err := pm.handleCall(b.Bytes(), vpAddr{remote.text})
	vpAssert(err == nil, "no-error")
	rd := &vpRd{b: reply}
	vpAssert(rd.u32() == xid, "xid-echoed")
	vpAssert(rd.u32() == RPC_REPLY, "is-reply")
	vpAssert(rd.u32() == MSG_ACCEPTED, "msg-accepted")
	rd.u32()
	vpAssert(rd.u32() == 0, "null-verifier")
	acc := rd.u32()
	okVersion := versSel != 3
	if !okVersion {
		vpReach("version-mismatch")
		vpAssert(acc == PROG_MISMATCH, "unsupported-version-is-PROG_MISMATCH")
		// RFC 1831: PROG_MISMATCH carries the lowest and highest supported versions
		vpKnown("K-C27-prog-mismatch-without-versions", true)
		lo, hi := rd.u32(), rd.u32()
		vpAssert(vpAnd(rd.done(), vpAnd(lo == 2, hi == 4)), "mismatch-info-follows")
		return
	}
	maxProc := uint32(4)
	if proc > maxProc {
		vpReach("unknown-procedure")
		vpAssert(acc == PROC_UNAVAIL, "unknown-procedure-is-PROC_UNAVAIL")
		vpAssert(rd.done(), "no-result-after-error")
		vpAssert(vpSameRegistry(pm, before), "registry-unchanged")
		return
	}
	vpAssert(acc == SUCCESS, "accepted")
	// protocol named by the request
	prot := aprot
	if version != 2 {
		prot = IPPROTO_TCP
		if netid == "udp" || netid == "udp6" {
			prot = IPPROTO_UDP
		}
	}
	switch proc {
	case 0:
		vpAssert(rd.done(), "null-has-no-result")
		vpAssert(vpSameRegistry(pm, before), "registry-unchanged")
	case 3: // GETPORT / GETADDR
		vpReach("lookup")
		lookupProt := prot
		if version != 2 && netid != "tcp" && netid != "tcp6" {
			lookupProt = IPPROTO_UDP // the statement's map is keyed by protocol; unknown netids are not TCP
		}
		k := vpFind(before, aprog, avers, lookupProt)
		if version == 2 {
			port := rd.u32()
			vpAssert(rd.done(), "getport-shape")
			if k >= 0 {
				vpAssert(port == before[k].port, "getport-reports-registration")
			} else {
				vpAssert(port == 0, "getport-zero-when-unregistered")
			}
		} else {
			ua := string(rd.opaque())
			vpAssert(rd.done(), "getaddr-shape")
			if k >= 0 {
				p := before[k].port
				want := fmt.Sprintf("192.0.2.7.%d.%d", p/256, p%256)
				if netid == "tcp6" || netid == "udp6" {
					want = fmt.Sprintf("::1.%d.%d", p/256, p%256)
				}
				vpAssert(ua == want, "getaddr-reports-registration")
			} else {
				vpAssert(ua == "", "getaddr-empty-when-unregistered")
			}
		}
		vpAssert(vpSameRegistry(pm, before), "registry-unchanged")
	case 4: // DUMP
		vpReach("dump")
		for i := range before {
			vpAssert(rd.u32() == 1, "dump-more")
			vpAssert(vpAnd(rd.u32() == before[i].prog, rd.u32() == before[i].vers), "dump-key")
			if version == 2 {
				vpAssert(vpAnd(rd.u32() == before[i].prot, rd.u32() == before[i].port), "dump-value")
			} else {
				nid := string(rd.opaque())
				ua := string(rd.opaque())
				rd.opaque()
				wantNid := "udp"
				if before[i].prot == IPPROTO_TCP {
					wantNid = "tcp"
				}
				vpAssert(nid == wantNid, "rpcb-dump-netid")
				vpAssert(ua == fmt.Sprintf("192.0.2.7.%d.%d", before[i].port/256, before[i].port%256), "rpcb-dump-uaddr")
			}
		}
		vpAssert(rd.u32() == 0, "dump-end")
		vpAssert(rd.done(), "dump-shape")
		vpAssert(vpSameRegistry(pm, before), "registry-unchanged")
	case 1, 2: // SET / UNSET
		res := rd.u32()
		vpAssert(rd.done(), "set-shape")
		if !remote.loopback {
			vpReach("non-loopback-modify")
			if version != 2 {
				vpKnown("K-C27-rpcbind-set-unset-not-loopback-guarded", true)
			} else if remote.ip == nil {
				vpKnown("K-C27-unparsable-remote-bypasses-guard", true)
			}
			vpAssert(vpSameRegistry(pm, before), "non-loopback-client-cannot-change-the-map")
			vpAssert(res == 0, "non-loopback-modify-refused")
			return
		}
		vpReach("loopback-modify")
		want := append([]vpMap(nil), before...)
		k := vpFind(want, aprog, avers, prot)
		if proc == 1 {
			port := aport
			ok := true
			if version != 2 {
				ok = false
				if uaddr == "0.0.0.0.8.1" {
					port, ok = 2049, true
				} else if uaddr == "10.0.0.1.0.111" {
					port, ok = 111, true
				}
			}
			if ok {
				if k >= 0 {
					want[k].port = port
				} else {
					want = append(want, vpMap{aprog, avers, prot, port})
				}
			}
		} else if k >= 0 {
			want = append(want[:k:k], want[k+1:]...)
		}
		vpAssert(vpSameRegistry(pm, want), "set-unset-update-exactly-one-key")
	}
}
