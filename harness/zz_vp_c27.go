package absnfs

// C27 — portmapper: registry semantics and loopback-only modification.

import "fmt"

func init() {
	vpRegister("VPH_C27_call", VPH_C27_call)
	vpRegister("VPH_C27_history", VPH_C27_history)
}

type vpAddr struct{ s string }

func (a vpAddr) Network() string { return "tcp" }
func (a vpAddr) String() string  { return a.s }

type vpRemote struct {
	text     string
	host     string
	ip       []byte // what ParseIP(host) yields (nil = unparsable)
	loopback bool
}

var vpRemotes = []vpRemote{
	{"127.0.0.1:999", "127.0.0.1", []byte{0, 0, 0, 0, 0, 0, 0, 0, 0, 0, 0xff, 0xff, 127, 0, 0, 1}, true},
	{"[::1]:999", "::1", []byte{0, 0, 0, 0, 0, 0, 0, 0, 0, 0, 0, 0, 0, 0, 0, 1}, true},
	{"10.0.0.9:999", "10.0.0.9", []byte{0, 0, 0, 0, 0, 0, 0, 0, 0, 0, 0xff, 0xff, 10, 0, 0, 9}, false},
	{"[2001:db8::1]:999", "2001:db8::1", []byte{0x20, 0x01, 0x0d, 0xb8, 0, 0, 0, 0, 0, 0, 0, 0, 0, 0, 0, 1}, false},
	{"[fe80::1%eth0]:999", "fe80::1%eth0", nil, false}, // zone-scoped link-local: net.ParseIP rejects the zone
	// addresses whose text carries no port (a net.Addr that is not a TCP/UDP address, e.g. *net.IPAddr)
	// or is an unbracketed IPv6 literal: none of them is a loopback address
	{"203.0.113.7", "203.0.113.7", []byte{0, 0, 0, 0, 0, 0, 0, 0, 0, 0, 0xff, 0xff, 203, 0, 113, 7}, false},
	{"2001:db8::7", "2001:db8::7", []byte{0x20, 0x01, 0x0d, 0xb8, 0, 0, 0, 0, 0, 0, 0, 0, 0, 0, 0, 7}, false},
	{"", "", nil, false},
	// IPv6 addresses that merely end in 127.x.y.z (NAT64, documentation prefix, IPv4-compatible) are not loopback
	{"[64:ff9b::7f00:1]:999", "64:ff9b::7f00:1", []byte{0, 0x64, 0xff, 0x9b, 0, 0, 0, 0, 0, 0, 0, 0, 0x7f, 0, 0, 1}, false},
	{"[2001:db8::7f00:1]:999", "2001:db8::7f00:1", []byte{0x20, 0x01, 0x0d, 0xb8, 0, 0, 0, 0, 0, 0, 0, 0, 0x7f, 0, 0, 1}, false},
	{"[::127.0.0.1]:999", "::127.0.0.1", []byte{0, 0, 0, 0, 0, 0, 0, 0, 0, 0, 0, 0, 0x7f, 0, 0, 1}, false},
	// and the IPv4-mapped spelling of a loopback address is
	{"[::ffff:127.0.0.1]:999", "::ffff:127.0.0.1", []byte{0, 0, 0, 0, 0, 0, 0, 0, 0, 0, 0xff, 0xff, 0x7f, 0, 0, 1}, true},
}

type vpMap struct{ prog, vers, prot, port uint32 }

func vpFind(ms []vpMap, prog, vers, prot uint32) int {
	for i := range ms {
		if ms[i].prog == prog && ms[i].vers == vers && ms[i].prot == prot {
			return i
		}
	}
	return -1
}

func vpSameRegistry(pm *Portmapper, ms []vpMap) bool {
	got := pm.GetMappings()
	if len(got) != len(ms) {
		return false
	}
	ok := true
	for i := range ms {
		g := got[i]
		ok = vpAnd(ok, vpAnd(vpAnd(g.Program == ms[i].prog, g.Version == ms[i].vers), vpAnd(g.Protocol == ms[i].prot, g.Port == ms[i].port)))
	}
	return ok
}

func VPH_C27_call() {
	for _, r := range vpRemotes {
		vpStubIP(r.host, r.ip)
	}
	pm := NewPortmapper()
	pm.SetListenAddr("192.0.2.7")
	ports := []uint32{111, 2049, 65535}
	var model []vpMap
	maxReg := 1
	if vpTier() == 1 {
		maxReg = 2
	}
	n := vpChoose("registered", 0, maxReg)
	for i := 0; i < n; i++ {
		m := vpMap{prog: vpU32("prog"), vers: vpU32("vers"), prot: []uint32{IPPROTO_TCP, IPPROTO_UDP}[vpChoose("prot", 0, 1)], port: ports[vpChoose("port", 0, 2)]}
		if vpFind(model, m.prog, m.vers, m.prot) >= 0 {
			vpAssume(false) // distinct keys
		}
		pm.RegisterService(m.prog, m.vers, m.prot, m.port)
		model = append(model, m)
	}
	before := append([]vpMap(nil), model...)

	xid := vpU32("xid")
	versSel := vpChoose("version", 0, 3)
	version := []uint32{2, 3, 4, 0}[versSel]
	if versSel == 3 {
		version = vpU32("otherversion")
		vpAssume(vpAnd(version != 2, vpAnd(version != 3, version != 4)))
	}
	proc := uint32(vpChoose("proc", 0, 5))
	aprog, avers, aprot := vpU32("a.prog"), vpU32("a.vers"), vpU32("a.prot")
	// menus are only drawn where the procedure looks at them
	modify := proc == 1 || proc == 2
	remote := vpRemotes[0]
	if modify {
		remote = vpRemotes[vpChoose("remote", 0, len(vpRemotes)-1)]
	}
	aport := ports[0]
	if version == 2 && proc == 1 {
		aport = ports[vpChoose("a.port", 0, 2)]
	}
	netid, uaddr := "tcp", ""
	if version != 2 && (modify || proc == 3) {
		netid = []string{"tcp", "tcp6", "udp", "udp6", "other"}[vpChoose("netid", 0, 4)]
	}
	if version != 2 && proc == 1 {
		// universal addresses: ordinary ones, and the largest octet (255) in the port and in the host part
		uaddr = []string{"0.0.0.0.8.1", "10.0.0.1.0.111", "", "garbage", "0.0.0.0.255.255", "0.0.0.0.3.255", "255.255.255.255.8.1"}[vpChoose("uaddr", 0, 6)]
	}

	var b vpBuf
	b.u32(xid).u32(RPC_CALL).u32(2).u32(PortmapperProgram).u32(version).u32(proc)
	b.u32(AUTH_NONE).u32(0).u32(AUTH_NONE).u32(0)
	if version == 2 {
		b.u32(aprog).u32(avers).u32(aprot).u32(aport)
	} else {
		b.u32(aprog).u32(avers).str(netid).str(uaddr).str("owner")
	}
	reply, err := pm.handleCall(b.Bytes(), vpAddr{remote.text})
	vpAssert(err == nil, "no-error")
	rd := &vpRd{b: reply}
	vpAssert(rd.u32() == xid, "xid-echoed")
	vpAssert(rd.u32() == RPC_REPLY, "is-reply")
	vpAssert(rd.u32() == MSG_ACCEPTED, "msg-accepted")
	rd.u32()
	vpAssert(rd.u32() == 0, "null-verifier")
	acc := rd.u32()
	okVersion := versSel != 3
	if !okVersion {
		vpReach("version-mismatch")
		vpAssert(acc == PROG_MISMATCH, "unsupported-version-is-PROG_MISMATCH")
		// RFC 1831: PROG_MISMATCH carries the lowest and highest supported versions
		vpKnown("K-C27-prog-mismatch-without-versions", true)
		lo, hi := rd.u32(), rd.u32()
		vpAssert(vpAnd(rd.done(), vpAnd(lo == 2, hi == 4)), "mismatch-info-follows")
		return
	}
	maxProc := uint32(4)
	if proc > maxProc {
		vpReach("unknown-procedure")
		vpAssert(acc == PROC_UNAVAIL, "unknown-procedure-is-PROC_UNAVAIL")
		vpAssert(rd.done(), "no-result-after-error")
		vpAssert(vpSameRegistry(pm, before), "registry-unchanged")
		return
	}
	vpAssert(acc == SUCCESS, "accepted")
	// protocol named by the request
	prot := aprot
	if version != 2 {
		prot = IPPROTO_TCP
		if netid == "udp" || netid == "udp6" {
			prot = IPPROTO_UDP
		}
	}
	switch proc {
	case 0:
		vpAssert(rd.done(), "null-has-no-result")
		vpAssert(vpSameRegistry(pm, before), "registry-unchanged")
	case 3: // GETPORT / GETADDR
		vpReach("lookup")
		lookupProt := prot
		if version != 2 && netid != "tcp" && netid != "tcp6" {
			lookupProt = IPPROTO_UDP // the statement's map is keyed by protocol; unknown netids are not TCP
		}
		k := vpFind(before, aprog, avers, lookupProt)
		if version == 2 {
			port := rd.u32()
			vpAssert(rd.done(), "getport-shape")
			if k >= 0 {
				vpAssert(port == before[k].port, "getport-reports-registration")
			} else {
				vpAssert(port == 0, "getport-zero-when-unregistered")
			}
		} else {
			ua := string(rd.opaque())
			vpAssert(rd.done(), "getaddr-shape")
			if k >= 0 {
				p := before[k].port
				want := fmt.Sprintf("192.0.2.7.%d.%d", p/256, p%256)
				if netid == "tcp6" || netid == "udp6" {
					want = fmt.Sprintf("::1.%d.%d", p/256, p%256)
				}
				vpAssert(ua == want, "getaddr-reports-registration")
			} else {
				vpAssert(ua == "", "getaddr-empty-when-unregistered")
			}
		}
		vpAssert(vpSameRegistry(pm, before), "registry-unchanged")
	case 4: // DUMP
		vpReach("dump")
		for i := range before {
			vpAssert(rd.u32() == 1, "dump-more")
			vpAssert(vpAnd(rd.u32() == before[i].prog, rd.u32() == before[i].vers), "dump-key")
			if version == 2 {
				vpAssert(vpAnd(rd.u32() == before[i].prot, rd.u32() == before[i].port), "dump-value")
			} else {
				nid := string(rd.opaque())
				ua := string(rd.opaque())
				rd.opaque()
				wantNid := "udp"
				if before[i].prot == IPPROTO_TCP {
					wantNid = "tcp"
				}
				vpAssert(nid == wantNid, "rpcb-dump-netid")
				vpAssert(ua == fmt.Sprintf("192.0.2.7.%d.%d", before[i].port/256, before[i].port%256), "rpcb-dump-uaddr")
			}
		}
		vpAssert(rd.u32() == 0, "dump-end")
		vpAssert(rd.done(), "dump-shape")
		vpAssert(vpSameRegistry(pm, before), "registry-unchanged")
	case 1, 2: // SET / UNSET
		res := rd.u32()
		vpAssert(rd.done(), "set-shape")
		if !remote.loopback {
			vpReach("non-loopback-modify")
			if version != 2 {
				vpKnown("K-C27-rpcbind-set-unset-not-loopback-guarded", true)
			} else if remote.ip == nil {
				vpKnown("K-C27-unparsable-remote-bypasses-guard", true)
			}
			vpAssert(vpSameRegistry(pm, before), "non-loopback-client-cannot-change-the-map")
			vpAssert(res == 0, "non-loopback-modify-refused")
			return
		}
		vpReach("loopback-modify")
		want := append([]vpMap(nil), before...)
		k := vpFind(want, aprog, avers, prot)
		if proc == 1 {
			port := aport
			ok := true
			if version != 2 {
				ok = false
				if uaddr == "0.0.0.0.8.1" {
					port, ok = 2049, true
				} else if uaddr == "10.0.0.1.0.111" {
					port, ok = 111, true
				} else if uaddr == "0.0.0.0.255.255" {
					port, ok = 65535, true
				} else if uaddr == "0.0.0.0.3.255" {
					port, ok = 1023, true
				} else if uaddr == "255.255.255.255.8.1" {
					port, ok = 2049, true
				}
			}
			if ok {
				if k >= 0 {
					want[k].port = port
				} else {
					want = append(want, vpMap{aprog, avers, prot, port})
				}
			}
		} else if k >= 0 {
			want = append(want[:k:k], want[k+1:]...)
		}
		vpAssert(vpSameRegistry(pm, want), "set-unset-update-exactly-one-key")
	}
}

// vpPmCall sends one portmap v2 / rpcbind v3-v4 call and returns the result bytes after the
// accepted-reply header (nil when the reply is not an accepted SUCCESS).
func vpPmCall(pm *Portmapper, remote string, version, proc, prog, vers, prot, port uint32) *vpRd {
	var b vpBuf
	b.u32(77).u32(RPC_CALL).u32(2).u32(PortmapperProgram).u32(version).u32(proc)
	b.u32(AUTH_NONE).u32(0).u32(AUTH_NONE).u32(0)
	if version == 2 {
		b.u32(prog).u32(vers).u32(prot).u32(port)
	} else {
		netid := "udp"
		if prot == IPPROTO_TCP {
			netid = "tcp"
		}
		b.u32(prog).u32(vers).str(netid).str(fmt.Sprintf("0.0.0.0.%d.%d", port/256, port%256)).str("owner")
	}
	reply, err := pm.handleCall(b.Bytes(), vpAddr{remote})
	if err != nil {
		return nil
	}
	rd := &vpRd{b: reply}
	if rd.u32() != 77 || rd.u32() != RPC_REPLY || rd.u32() != MSG_ACCEPTED {
		return nil
	}
	rd.u32()
	rd.u32()
	if rd.u32() != SUCCESS {
		return nil
	}
	return rd
}

// VPH_C27_history: k calls (SET, UNSET, GETPORT/GETADDR, DUMP; any protocol version; loopback or
// routable caller) from the empty registry over two programs x two ports, in lockstep with a map
// written from the statement. Every query answers from the current registrations - in particular
// after a SET that only changes the port of a key already present - and only loopback callers
// change the map.
func VPH_C27_history() {
	for _, r := range vpRemotes {
		vpStubIP(r.host, r.ip)
	}
	pm := NewPortmapper()
	pm.SetListenAddr("192.0.2.7")
	k := 3
	if vpTier() == 1 {
		k = 4
	}
	progs := []uint32{100003, 100005}
	ports := []uint32{2049, 635}
	var model []vpMap
	// one protocol version for the modifying calls and one for the queries of a history (so v3 SET
	// followed by v2 DUMP is covered) rather than one per call: 9 x 12^k paths instead of 60^k
	modVersion := []uint32{2, 3, 4}[vpChoose("modify-version", 0, 2)]
	qryVersion := []uint32{2, 3, 4}[vpChoose("query-version", 0, 2)]
	for step := 0; step < k; step++ {
		prog := progs[vpChoose("prog", 0, 1)]
		// 0 SET port A, 1 SET port B, 2 SET from a routable address, 3 UNSET, 4 GETPORT/GETADDR, 5 DUMP
		sel := vpChoose("op", 0, 5)
		op := []int{0, 0, 0, 1, 2, 3}[sel]
		version := qryVersion
		if op <= 1 {
			version = modVersion
		}
		switch op {
		case 0, 1: // SET / UNSET
			local := sel != 2
			remote := "10.0.0.9:999"
			if local {
				remote = "127.0.0.1:999"
			}
			port := ports[sel&1]
			rd := vpPmCall(pm, remote, version, uint32(1+op), prog, 3, IPPROTO_TCP, port)
			vpAssert(rd != nil, "history-modify-answered")
			if rd == nil {
				return
			}
			res := rd.u32()
			i := vpFind(model, prog, 3, IPPROTO_TCP)
			if !local {
				vpAssert(res == 0, "history-non-loopback-modify-refused")
			} else if op == 0 {
				vpReach("history-set")
				if i >= 0 {
					vpReach("history-set-changes-port-of-existing-key")
					model[i].port = port
				} else {
					model = append(model, vpMap{prog, 3, IPPROTO_TCP, port})
				}
			} else if i >= 0 {
				vpReach("history-unset")
				model = append(model[:i:i], model[i+1:]...)
			}
		case 2: // GETPORT / GETADDR
			rd := vpPmCall(pm, "10.0.0.9:999", version, 3, prog, 3, IPPROTO_TCP, 0)
			vpAssert(rd != nil, "history-lookup-answered")
			if rd == nil {
				return
			}
			i := vpFind(model, prog, 3, IPPROTO_TCP)
			if version == 2 {
				got := rd.u32()
				want := uint32(0)
				if i >= 0 {
					want = model[i].port
				}
				vpAssert(got == want, "history-getport-reports-current-registration")
			} else {
				ua := string(rd.opaque())
				want := ""
				if i >= 0 {
					want = fmt.Sprintf("192.0.2.7.%d.%d", model[i].port/256, model[i].port%256)
				}
				vpAssert(ua == want, "history-getaddr-reports-current-registration")
			}
		case 3: // DUMP
			vpReach("history-dump")
			rd := vpPmCall(pm, "10.0.0.9:999", version, 4, 0, 0, 0, 0)
			vpAssert(rd != nil, "history-dump-answered")
			if rd == nil {
				return
			}
			for i := range model {
				vpAssert(rd.u32() == 1, "history-dump-more")
				vpAssert(vpAnd(rd.u32() == model[i].prog, rd.u32() == model[i].vers), "history-dump-key")
				if version == 2 {
					vpAssert(vpAnd(rd.u32() == model[i].prot, rd.u32() == model[i].port), "history-dump-reports-current-port")
				} else {
					rd.opaque()
					ua := string(rd.opaque())
					rd.opaque()
					vpAssert(ua == fmt.Sprintf("192.0.2.7.%d.%d", model[i].port/256, model[i].port%256), "history-rpcb-dump-reports-current-port")
				}
			}
			vpAssert(vpAnd(rd.u32() == 0, rd.done()), "history-dump-end")
		}
		vpAssert(vpSameRegistry(pm, model), "history-registry-equals-model")
	}
}
