package absnfs

// C02 — namespace operations refine a POSIX tree model; caches are transparent.

import "os"

func init() {
	vpRegister("VPH_C02_step", VPH_C02_step)
	vpRegister("VPH_C02_history", VPH_C02_history)
}

type vpC02State struct {
	xKind, yKind int  // 0 absent, 1 file, 2 directory, 3 symlink
	xChild       bool // /d/x/c exists (when x is a directory)
}

func vpC02Tree(st vpC02State) *vpFS {
	fs := vpNewFS()
	fs.addDir("/d")
	fs.addDir("/e")
	put := func(p string, kind int) {
		switch kind {
		case 0:
			fs.addAbsent(p)
		case 1:
			fs.addFileData(p, []byte("data"))
		case 2:
			fs.addDir(p)
		case 3:
			fs.addLink(p, "y")
		}
	}
	put("/d/x", st.xKind)
	put("/d/y", st.yKind)
	if st.xKind == 2 && st.xChild {
		fs.addFileData("/d/x/c", []byte("c"))
	} else {
		fs.addAbsent("/d/x/c")
	}
	fs.addAbsent("/e/x")
	fs.addAbsent("/e/y")
	fs.addAbsent("/d/y/c")
	fs.addAbsent("/e/x/c")
	fs.addAbsent("/e/y/c")
	return fs
}

// vpWarmCaches puts the caches of env into an arbitrary state that is coherent with the backend:
// positive entries agree with lstat, negative entries only for absent paths, listings equal the backend's.
func vpWarmCaches(env *vpEnv, negOn, dirOn bool) {
	// quick tier: four warm-up patterns; thorough tier: every subset of the paths
	pattern := -1
	if vpTier() == 0 {
		pattern = vpChoose("warm-pattern", 0, 3)
	}
	for i, p := range []string{"/d/x", "/d/y", "/d", "/e/x"} {
		if pattern >= 0 {
			on := pattern == 1 || (pattern == 2 && i < 2) || (pattern == 3 && i >= 2)
			if !on {
				continue
			}
		} else if !vpBool("warm" + p) {
			continue
		}
		if _, err := env.fs.Lstat(p); err == nil {
			env.nfs.Lookup(p) // fills a positive entry through the real code
		} else if negOn {
			env.nfs.attrCache.PutNegative(p)
		}
	}
	if dirOn && (pattern == 1 || pattern == 2 || (pattern < 0 && vpBool("warm-listing"))) {
		if node, err := env.nfs.Lookup("/d"); err == nil {
			env.nfs.ReadDir(node)
		}
	}
	// the listing of the other directory, into which RENAME can move things (quick tier: together
	// with the listing of /d; thorough tier: independently)
	warmE := false
	if dirOn {
		if pattern >= 0 {
			warmE = pattern == 1 || pattern == 2
		} else {
			warmE = vpBool("warm-listing-of-e")
		}
	}
	if warmE {
		if node, err := env.nfs.Lookup("/e"); err == nil {
			env.nfs.ReadDir(node)
			vpReach("destination-directory-listing-cached")
		}
	}
	// a listing of the child directory itself (so that RMDIR/RENAME of a directory whose own
	// listing is cached is a reachable step)
	if n := env.fs.lookup("/d/x"); dirOn && n != nil && n.kind == vpKDir && vpBool("warm-listing-of-x") {
		if node, err := env.nfs.Lookup("/d/x"); err == nil {
			env.nfs.ReadDir(node)
			vpReach("child-directory-listing-cached")
		}
	}
	// ... a LOOKUP miss cached below a directory that has since been removed (RMDIR does not clear
	// the negative entries below the directory it removes)
	if env.fs.lookup("/d/y") == nil && negOn && vpBool("negative-entry-below-vanished-y") {
		env.nfs.attrCache.PutNegative("/d/y/c")
		vpReach("negative-entry-below-vanished-directory")
	}
	// ... or the empty listing a removed directory leaves behind (REMOVE keeps it)
	if n := env.fs.lookup("/d/x"); dirOn && n == nil && vpBool("empty-listing-of-vanished-x") {
		env.nfs.dirCache.Put("/d/x", nil)
		vpReach("vanished-directory-listing-cached")
	}
	env.fs.log = nil
}

// vpStaleHandle leaves a live handle for /d/x that was issued while x was an object of the given
// kind (1 file, 2 directory, 3 symlink) although x is absent now: REMOVE, RMDIR and RENAME do not
// release the handles of the names they take away, so this is what the table looks like after them.
func vpStaleHandle(env *vpEnv, kind int) {
	switch kind {
	case 1:
		env.fs.addFileData("/d/x", []byte("old"))
	case 2:
		env.fs.addDir("/d/x")
	case 3:
		env.fs.addLink("/d/x", "y")
	default:
		return
	}
	env.handleFor("/d/x")
	env.fs.addAbsent("/d/x")
	env.fs.log = nil
}

// vpHandleCurrent: the handle a successful LOOKUP / CREATE / MKDIR / SYMLINK reply carries for p is
// bound to a node of the type the backend has at p now (the handlers take their directory / symlink
// type tests from the node bound to the handle, so a handle left over from an earlier object of
// another type at the same name must be re-bound when the name is issued again). Nothing is said
// about handles no reply of this step carried.
func vpHandleCurrent(env *vpEnv, p, tag string) {
	{
		id, ok := env.nfs.fileMap.pathHandles[p]
		if !ok {
			return
		}
		f, live := env.nfs.fileMap.Get(id)
		n := env.fs.lookup(p)
		if !live || n == nil {
			return
		}
		node, isNode := f.(*NFSNode)
		if !isNode || node.attrs == nil {
			return
		}
		isDir := node.attrs.Mode&os.ModeDir != 0
		isLnk := node.attrs.Mode&os.ModeSymlink != 0
		vpAssert(vpAnd(isDir == (n.kind == vpKDir), isLnk == (n.kind == vpKLink)), tag+"-issued-handle-names-the-current-object-type")
	}
}

// vpCoherent asserts the coherence invariant by probing the caches.
func vpCoherent(env *vpEnv, tag string) {
	for _, p := range []string{"/d/x", "/d/y", "/e/x", "/e/y", "/d/x/c", "/d/y/c", "/e/x/c", "/e/y/c"} {
		a, hit := env.nfs.attrCache.Get(p)
		n := env.fs.lookup(p)
		if !hit {
			continue
		}
		if a == nil {
			vpAssert(n == nil, tag+"-negative-entry-only-for-absent-path")
		} else {
			vpAssert(n != nil, tag+"-positive-entry-only-for-existing-path")
			if n != nil {
				isDir := a.Mode&os.ModeDir != 0
				isLnk := a.Mode&os.ModeSymlink != 0
				vpAssert(vpAnd(isDir == (n.kind == vpKDir), isLnk == (n.kind == vpKLink)), tag+"-cached-type-is-current")
			}
		}
	}
	if env.nfs.dirCache != nil {
		for _, d := range []string{"/d", "/e", "/d/x"} {
			l, hit := env.nfs.dirCache.Get(d)
			if !hit {
				continue
			}
			// A listing can outlive its directory (REMOVE of an empty directory keeps it), but then it
			// is empty, and every way of putting something at that path again drops or equals it.
			if n := env.fs.lookup(d); n == nil || n.kind != vpKDir {
				vpAssert(len(l) == 0, tag+"-listing-of-a-vanished-directory-is-empty")
				continue
			}
			kids := env.fs.children(d)
			vpAssert(len(l) == len(kids), tag+"-cached-listing-is-current")
		}
	}
}

func vpKindOf(fs *vpFS, p string) int {
	n := fs.lookup(p)
	if n == nil {
		return 0
	}
	switch n.kind {
	case vpKDir:
		return 2
	case vpKLink:
		return 3
	}
	return 1
}

type vpC02Req struct {
	proc           uint32
	name, name2    string
	toE            bool
	how            int
}

func vpC02Args(r vpC02Req, hd, he uint64) []byte {
	var b vpBuf
	s := &vpSattr{}
	switch r.proc {
	case NFSPROC3_LOOKUP, NFSPROC3_REMOVE, NFSPROC3_RMDIR:
		b.fh(hd).str(r.name)
	case NFSPROC3_CREATE:
		b.fh(hd).str(r.name).u32(0).sattr(s)
	case NFSPROC3_MKDIR:
		b.fh(hd).str(r.name).sattr(s)
	case NFSPROC3_SYMLINK:
		b.fh(hd).str(r.name).sattr(s).str("y")
	case NFSPROC3_RENAME:
		dst := hd
		if r.toE {
			dst = he
		}
		b.fh(hd).str(r.name).fh(dst).str(r.name2)
	case NFSPROC3_READDIR:
		dir := hd
		if r.toE {
			dir = he
		}
		b.fh(dir).u64(0).raw(make([]byte, 8)).u32(8192)
	}
	return b.Bytes()
}

func vpC02Draw() vpC02Req {
	procs := []uint32{NFSPROC3_LOOKUP, NFSPROC3_CREATE, NFSPROC3_MKDIR, NFSPROC3_SYMLINK, NFSPROC3_REMOVE, NFSPROC3_RMDIR, NFSPROC3_RENAME, NFSPROC3_READDIR}
	r := vpC02Req{proc: procs[vpChoose("proc", 0, len(procs)-1)]}
	names := []string{"x", "y"}
	if r.proc != NFSPROC3_READDIR {
		r.name = names[vpChoose("name", 0, 1)]
	}
	if r.proc == NFSPROC3_RENAME {
		r.name2 = names[vpChoose("name2", 0, 1)]
		r.toE = vpBool("to-e")
	}
	if r.proc == NFSPROC3_READDIR {
		r.toE = vpBool("list-e") // READDIR of /d or of /e
	}
	return r
}

// vpC02Model: what the tree model says about the status (0 = must succeed, >0 = must be that error,
// -1 = the statement leaves it open) for a request on the backend state fs.
func vpC02Model(fs *vpFS, r vpC02Req) int {
	k := vpKindOf(fs, "/d/"+r.name)
	switch r.proc {
	case NFSPROC3_LOOKUP:
		if k == 0 {
			return NFSERR_NOENT
		}
		return 0
	case NFSPROC3_CREATE:
		if k == 0 || k == 1 {
			return 0
		}
		return -1
	case NFSPROC3_MKDIR, NFSPROC3_SYMLINK:
		if k != 0 {
			return NFSERR_EXIST
		}
		return 0
	case NFSPROC3_REMOVE:
		if k == 0 {
			return NFSERR_NOENT
		}
		if k == 2 {
			return -1 // REMOVE applied to a directory is implementation-defined
		}
		return 0
	case NFSPROC3_RMDIR:
		switch k {
		case 0:
			return NFSERR_NOENT
		case 1:
			return NFSERR_NOTDIR
		case 3:
			return -1
		}
		if len(fs.children("/d/"+r.name)) > 0 {
			return NFSERR_NOTEMPTY
		}
		return 0
	case NFSPROC3_RENAME:
		if k == 0 {
			return NFSERR_NOENT
		}
		dst := "/d/" + r.name2
		if r.toE {
			dst = "/e/" + r.name2
		}
		dk := vpKindOf(fs, dst)
		if dk == 0 || (dk == 1 && k == 1) || dst == "/d/"+r.name {
			return 0
		}
		return -1
	case NFSPROC3_READDIR:
		return 0
	}
	return -1
}

// VPH_C02_step: one request on a server whose caches are in an arbitrary coherent state, next to a
// twin whose caches are empty and disabled. Same status, same resulting tree, status as the tree
// model demands, failed requests change nothing, and the caches are coherent again afterwards.
func VPH_C02_step() {
	st := vpC02State{xKind: vpChoose("x", 0, 3), yKind: vpChoose("y", 0, 1)}
	if st.xKind == 2 {
		st.xChild = vpBool("x-has-child")
	}
	negOn, dirOn := vpBool("negative-caching"), vpBool("dir-cache")
	a := vpServer(vpC02Tree(st), ExportOptions{CacheNegativeLookups: negOn, EnableDirCache: dirOn})
	b := vpServer(vpC02Tree(st), ExportOptions{})
	hda, hea := a.handleFor("/d"), a.handleFor("/e")
	hdb, heb := b.handleFor("/d"), b.handleFor("/e")
	if st.xKind == 0 {
		if k0 := vpChoose("stale-handle-kind", 0, 3); k0 != 0 {
			vpReach("stale-handle-for-removed-name")
			vpStaleHandle(a, k0)
			vpStaleHandle(b, k0)
		}
	}
	a.clearCaches()
	vpWarmCaches(a, negOn, dirOn)
	if vpBool("expired") {
		vpSetClock(1_000_000_000 + 3600*1_000_000_000)
	}
	vpCoherent(a, "pre")

	r := vpC02Draw()
	model := vpC02Model(b.fs, r)
	beforeA, beforeB := a.fs.snapshot(), b.fs.snapshot()
	b.clearCaches()
	ra := &vpRd{b: vpReplyBytes(a.call(r.proc, vpC02Args(r, hda, hea)))}
	rb := &vpRd{b: vpReplyBytes(b.call(r.proc, vpC02Args(r, hdb, heb)))}
	sa, sb := ra.u32(), rb.u32()
	vpObserve("status-cached", sa)
	vpObserve("status-uncached", sb)

	if r.proc == NFSPROC3_MKDIR {
		vpKnown("K-C02-mkdir-no-cache-invalidation", true)
	}
	// the twin without caches follows the tree model
	if model == 0 {
		vpAssert(sb == NFS_OK, "uncached-status-follows-model-success")
	} else if model > 0 {
		vpAssert(sb != NFS_OK, "uncached-status-follows-model-failure")
	}
	if sb != NFS_OK {
		vpAssert(b.fs.snapshot() == beforeB, "uncached-failed-request-leaves-tree")
	}
	// caches never change a reply nor the tree
	vpAssert((sa == NFS_OK) == (sb == NFS_OK), "caches-do-not-change-success")
	vpAssert(sa == sb, "caches-do-not-change-status")
	vpAssert(a.fs.snapshot() == b.fs.snapshot(), "caches-do-not-change-resulting-tree")
	if sa != NFS_OK {
		vpAssert(a.fs.snapshot() == beforeA, "failed-request-leaves-tree")
	}
	if r.proc == NFSPROC3_READDIR && sa == NFS_OK && sb == NFS_OK {
		ra.postOp()
		rb.postOp()
		ra.u64()
		rb.u64()
		ea, _ := vpReadEntries(ra, false)
		eb, _ := vpReadEntries(rb, false)
		vpAssert(len(ea) == len(eb), "caches-do-not-change-listing-length")
		for i := range ea {
			if i < len(eb) {
				vpAssert(ea[i].name == eb[i].name, "caches-do-not-change-listing")
			}
		}
		listed := "/d"
		if r.toE {
			listed = "/e"
		}
		vpAssert(len(eb) == len(b.fs.children(listed)), "listing-is-the-directory")
	}
	// the server's caches never hide the effect of a mutation it completed itself
	vpCoherent(a, "post")
	if sa == NFS_OK && (r.proc == NFSPROC3_LOOKUP || r.proc == NFSPROC3_CREATE || r.proc == NFSPROC3_MKDIR || r.proc == NFSPROC3_SYMLINK) {
		vpHandleCurrent(a, "/d/"+r.name, "post")
		vpHandleCurrent(b, "/d/"+r.name, "post-uncached")
	}
	// a handle the reply carries for a directory just made can be used as a directory
	if r.proc == NFSPROC3_MKDIR && sa == NFS_OK && r.name == "x" {
		if id, ok := a.nfs.fileMap.pathHandles["/d/x"]; ok {
			var l vpBuf
			rl := &vpRd{b: vpReplyBytes(a.call(NFSPROC3_LOOKUP, l.fh(id).str("c").Bytes()))}
			vpAssert(rl.u32() == NFSERR_NOENT, "new-directory-handle-is-a-directory")
		}
	}
	// and an immediately following LOOKUP of the names agrees with the backend
	for _, nm := range []string{"x", "y"} {
		var l vpBuf
		rl := &vpRd{b: vpReplyBytes(a.call(NFSPROC3_LOOKUP, l.fh(hda).str(nm).Bytes()))}
		st := rl.u32()
		exists := a.fs.lookup("/d/"+nm) != nil
		vpAssert((st == NFS_OK) == exists, "lookup-after-agrees-with-backend")
	}
}

// VPH_C02_history: k requests from a concrete small tree, all caches on, against a twin whose caches
// are emptied before every request; no invariant is involved.
func VPH_C02_history() {
	k := 2
	if vpTier() == 1 {
		k = 3
	}
	st := vpC02State{xKind: 1, yKind: 0}
	a := vpServer(vpC02Tree(st), ExportOptions{CacheNegativeLookups: true, EnableDirCache: true})
	b := vpServer(vpC02Tree(st), ExportOptions{})
	hda, hea := a.handleFor("/d"), a.handleFor("/e")
	hdb, heb := b.handleFor("/d"), b.handleFor("/e")
	sawMkdir := false
	for i := 0; i < k; i++ {
		r := vpC02Draw()
		if r.proc == NFSPROC3_MKDIR {
			sawMkdir = true
		}
		b.clearCaches()
		ra := &vpRd{b: vpReplyBytes(a.call(r.proc, vpC02Args(r, hda, hea)))}
		rb := &vpRd{b: vpReplyBytes(b.call(r.proc, vpC02Args(r, hdb, heb)))}
		sa, sb := ra.u32(), rb.u32()
		if sawMkdir {
			vpKnown("K-C02-mkdir-no-cache-invalidation", true)
		}
		vpAssert(sa == sb, "history-caches-do-not-change-status")
		vpAssert(a.fs.snapshot() == b.fs.snapshot(), "history-caches-do-not-change-tree")
	}
}
