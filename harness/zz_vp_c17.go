package absnfs

// C17 — connections are bounded, accounted, reaped when idle, and fully shut down
// (sequential transition semantics only).

import (
	"net"
	"time"
)

func init() {
	vpRegister("VPH_C17_accounting", VPH_C17_accounting)
	vpRegister("VPH_C17_idle", VPH_C17_idle)
	vpRegister("VPH_C17_close", VPH_C17_close)
	vpRegister("VPH_C17_listen_any_idle_timeout", VPH_C17_listen_any_idle_timeout)
	vpRegister("VPH_C17_accept_refusals", VPH_C17_accept_refusals)
}

// VPH_C17_accounting: a sequence of connection opens and closes with a symbolic MaxConnections.
func VPH_C17_accounting() {
	k := 4
	if vpTier() == 1 {
		k = 6
	}
	max := vpInt("maxconnections")
	vpAssume(vpAnd(max >= 1, max <= 1<<20))
	fs := vpStdTree()
	env := vpServer(fs, ExportOptions{MaxConnections: max})
	srv := env.srv
	conns := []*vpConn{}
	live := map[*vpConn]bool{}
	count := 0
	for i := 0; i < k; i++ {
		if len(conns) > 0 && vpBool("close") {
			c := conns[vpChoose("which", 0, len(conns)-1)]
			srv.unregisterConnection(c)
			if live[c] {
				count--
				live[c] = false
			}
			vpAssert(srv.connCount == count, "close-uncounts-exactly-once")
			continue
		}
		c := &vpConn{remote: "10.0.0.5:800"}
		ok := srv.registerConnection(c)
		vpAssert(ok == (count < max), "admitted-exactly-below-the-limit")
		if ok {
			conns = append(conns, c)
			live[c] = true
			count++
			vpReach("admitted")
		} else {
			vpReach("refused")
		}
		vpAssert(srv.connCount == count, "every-accepted-connection-counted-once")
		vpAssert(srv.connCount <= max, "never-above-MaxConnections")
		vpAssert(len(srv.activeConns) == count, "tracking-map-agrees-with-count")
	}
}

// VPH_C17_idle: cleanupIdleConnections closes exactly the connections idle longer than IdleTimeout.
func VPH_C17_idle() {
	idle := vpI64("idletimeout")
	vpAssume(vpAnd(idle > 0, idle < 1<<50))
	fs := vpStdTree()
	env := vpServer(fs, ExportOptions{})
	env.nfs.UpdateTuningOptions(func(t *TuningOptions) { t.IdleTimeout = vpDurFrom(idle) })
	srv := env.srv
	n := vpChoose("connections", 1, 3)
	var conns []*vpConn
	var last []int64
	for i := 0; i < n; i++ {
		t := vpI64("lastactivity")
		vpAssume(vpAnd(t >= 0, t < 1<<50))
		vpSetClock(t)
		c := &vpConn{remote: "10.0.0.5:800"}
		vpAssume(srv.registerConnection(c))
		conns = append(conns, c)
		last = append(last, t)
	}
	now := vpI64("now")
	vpAssume(vpAnd(now >= 0, now < 1<<51))
	for _, t := range last {
		vpAssume(now >= t)
	}
	vpSetClock(now)
	srv.cleanupIdleConnections()
	remaining := 0
	for i, c := range conns {
		isIdle := now-last[i] > idle
		_, tracked := srv.activeConns[net.Conn(c)]
		vpAssert((c.closed > 0) == isIdle, "closed-exactly-when-idle-longer-than-timeout")
		vpAssert(tracked == !isIdle, "idle-connection-uncounted")
		if !isIdle {
			remaining++
		}
	}
	vpAssert(srv.connCount == remaining, "count-after-reaping")
	// repeating it is harmless
	srv.cleanupIdleConnections()
	vpAssert(srv.connCount == remaining, "reaping-idempotent")
}

// VPH_C17_close: after Close or Unexport every handle is released and the caches are empty; repeating is harmless.
func VPH_C17_close() {
	fs := vpStdTree()
	env := vpServer(fs, ExportOptions{EnableDirCache: true, CacheNegativeLookups: true})
	n := vpChoose("handles", 0, 3)
	paths := []string{"/d", "/d/x", "/d/l"}
	for i := 0; i < n; i++ {
		env.handleFor(paths[i])
	}
	env.nfs.Lookup("/d/nonexistent")
	if node, err := env.nfs.Lookup("/d"); err == nil {
		env.nfs.ReadDir(node)
	}
	// the options can change between the last request and the shutdown; the cache objects made at
	// construction stay in use whatever the flags say afterwards
	switch vpChoose("update-before-shutdown", 0, 2) {
	case 1:
		env.nfs.UpdateTuningOptions(func(t *TuningOptions) { t.EnableDirCache = false; t.CacheNegativeLookups = false })
		vpReach("cache-flags-switched-off-at-run-time")
	case 2:
		env.nfs.UpdateExportOptions(ExportOptions{ReadOnly: true})
		vpReach("options-replaced-at-run-time")
	}
	useClose := vpBool("close")
	for rep := 0; rep < 2; rep++ {
		var err error
		if useClose {
			err = env.nfs.Close()
		} else {
			err = env.nfs.Unexport()
		}
		vpAssert(err == nil, "shutdown-call-succeeds")
		vpAssert(env.nfs.fileMap.Count() == 0, "every-handle-released")
		vpAssert(env.nfs.attrCache.Size() == 0, "attribute-cache-empty")
		vpAssert(env.nfs.dirCache.Size() == 0, "directory-cache-empty")
	}
	// a handle issued before is stale now
	var b vpBuf
	rd := &vpRd{b: vpReplyBytes(env.call(NFSPROC3_GETATTR, b.fh(1).Bytes()))}
	vpAssert(rd.u32() == NFSERR_STALE, "old-handle-stale-after-shutdown")
}

// VPH_C17_listen_any_idle_timeout: a server can be started (and its idle reaper set going) with any
// positive IdleTimeout, set at construction or at run time before Listen: nothing in the start-up
// path panics, and the one client is served. (The reaper derives its tick interval from the timeout.)
func VPH_C17_listen_any_idle_timeout() {
	idle := vpI64("idletimeout")
	vpAssume(vpAnd(idle > 0, idle < 1<<50))
	fs := vpStdTree()
	var env *vpEnv
	if vpBool("set-at-runtime") {
		env = vpServer(fs, ExportOptions{})
		env.nfs.UpdateTuningOptions(func(t *TuningOptions) { t.IdleTimeout = vpDurFrom(idle) })
		vpReach("runtime")
	} else {
		env = vpServer(fs, ExportOptions{IdleTimeout: vpDurFrom(idle)})
		vpReach("construction")
	}
	conn := &vpConn{in: vpClientCall(9, NFS_PROGRAM, NFS_V3, NFSPROC3_NULL, nil), remote: "127.0.0.1:800"}
	l := &vpListener{addr: "127.0.0.1:2049", conns: []*vpConn{conn}, done: make(chan struct{})}
	vpListeners = map[string]*vpListener{"": l}
	defer func() { vpListeners = nil }()
	s, err := NewServer(ServerOptions{Name: "vp", Port: 2049, Hostname: "localhost", UseRecordMarking: true})
	vpAssert(err == nil, "server-created")
	s.SetHandler(env.nfs)
	vpAssert(s.Listen() == nil, "listen-starts")
	var closed bool
	var out []byte
	for i := 0; i < 500; i++ {
		if closed, out = conn.served(); closed {
			break
		}
		time.Sleep(10 * time.Millisecond)
	}
	replies, ok := vpSplitRecords(out)
	vpAssert(vpAnd(closed, vpAnd(ok, len(replies) == 1)), "client-served")
	l.Close()
}

// VPH_C17_accept_refusals: clients the accept loop turns away for their address are not counted:
// after 0..2 such clients an allowed client is still served under MaxConnections 1 or 2, and once
// it has gone the counter and the tracking map are back at zero.
func VPH_C17_accept_refusals() {
	refused := vpChoose("refused-clients-first", 0, 2)
	max := vpChoose("maxconnections", 1, 2)
	fs := vpStdTree()
	env := vpServer(fs, ExportOptions{AllowedIPs: []string{"127.0.0.1"}, MaxConnections: max})
	var conns []*vpConn
	for i := 0; i < refused; i++ {
		conns = append(conns, &vpConn{in: vpClientCall(7, NFS_PROGRAM, NFS_V3, NFSPROC3_NULL, nil), remote: "10.9.9.9:800"})
	}
	good := &vpConn{in: vpClientCall(9, NFS_PROGRAM, NFS_V3, NFSPROC3_NULL, nil), remote: "127.0.0.1:800"}
	conns = append(conns, good)
	l := &vpListener{addr: "127.0.0.1:2049", conns: conns, done: make(chan struct{})}
	vpListeners = map[string]*vpListener{"": l}
	defer func() { vpListeners = nil }()
	s, err := NewServer(ServerOptions{Name: "vp", Port: 2049, Hostname: "localhost", UseRecordMarking: true})
	vpAssert(err == nil, "server-created")
	s.SetHandler(env.nfs)
	vpAssert(s.Listen() == nil, "listen-starts")
	var closed bool
	var out []byte
	for i := 0; i < 500; i++ {
		if closed, out = good.served(); closed {
			break
		}
		time.Sleep(10 * time.Millisecond)
	}
	replies, ok := vpSplitRecords(out)
	vpAssert(vpAnd(closed, vpAnd(ok, len(replies) == 1)), "allowed-client-served-after-refused-ones")
	for i := 0; i < refused; i++ {
		c, o := conns[i].served()
		vpAssert(vpAnd(c, len(o) == 0), "disallowed-client-closed-unanswered")
		vpReach("client-refused-for-its-address")
	}
	count, tracked := -1, -1
	for i := 0; i < 500; i++ {
		s.connMutex.Lock()
		count, tracked = s.connCount, len(s.activeConns)
		s.connMutex.Unlock()
		if count == 0 && tracked == 0 {
			break
		}
		time.Sleep(10 * time.Millisecond)
	}
	vpAssert(vpAnd(count == 0, tracked == 0), "nothing-counted-once-every-connection-ended")
	l.Close()
}
