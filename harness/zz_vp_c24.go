package absnfs

// C24 — runtime reconfiguration keeps the server serviceable and is all-or-nothing.

import (
	"runtime"
	"time"
)

func init() {
	vpRegister("VPH_C24_export_update", VPH_C24_export_update)
	vpRegister("VPH_C24_tuning_update", VPH_C24_tuning_update)
	vpRegister("VPH_C24_policy_update", VPH_C24_policy_update)
}

func vpDur(name string) time.Duration {
	d := vpI64(name)
	vpAssume(vpAnd(d > -(1<<50), d < 1<<50))
	return time.Duration(d)
}

// vpTimeoutDur: a timeout value; positive ones are at least a second, because the engine's contexts
// never expire (request timeouts are outside every claim) and the native replay must agree.
func vpTimeoutDur(name string) time.Duration {
	d := vpDur(name)
	vpAssume(vpOr(d <= 0, d >= time.Second))
	return d
}

func vpDurFrom(ns int64) time.Duration { return time.Duration(ns) }

func vpSmallInt(name string) int {
	v := vpInt(name)
	vpAssume(vpAnd(v > -(1<<31), v < 1<<31))
	return v
}

// vpDefaulted is what the field must be after an update that supplied v: v itself when positive,
// otherwise the construction default.
func vpDefInt(v, def int) int { return vpIteInt(v > 0, v, def) }
func vpDefDur(v, def time.Duration) time.Duration {
	return time.Duration(vpIteI64(v > 0, int64(v), int64(def)))
}

// vpSameConfig compares the scalar configuration of two option snapshots (bit-identical).
func vpSameConfig(a, b ExportOptions) bool {
	ok := vpAnd(a.ReadOnly == b.ReadOnly, a.Secure == b.Secure)
	ok = vpAnd(ok, vpAnd(a.Squash == b.Squash, a.MaxFileSize == b.MaxFileSize))
	ok = vpAnd(ok, vpAnd(a.TransferSize == b.TransferSize, a.AttrCacheTimeout == b.AttrCacheTimeout))
	ok = vpAnd(ok, vpAnd(a.AttrCacheSize == b.AttrCacheSize, a.CacheNegativeLookups == b.CacheNegativeLookups))
	ok = vpAnd(ok, vpAnd(a.NegativeCacheTimeout == b.NegativeCacheTimeout, a.EnableDirCache == b.EnableDirCache))
	ok = vpAnd(ok, vpAnd(a.DirCacheTimeout == b.DirCacheTimeout, a.DirCacheMaxEntries == b.DirCacheMaxEntries))
	ok = vpAnd(ok, vpAnd(a.DirCacheMaxDirSize == b.DirCacheMaxDirSize, a.MaxWorkers == b.MaxWorkers))
	ok = vpAnd(ok, vpAnd(a.MaxConnections == b.MaxConnections, a.IdleTimeout == b.IdleTimeout))
	ok = vpAnd(ok, vpAnd(a.SendBufferSize == b.SendBufferSize, a.ReceiveBufferSize == b.ReceiveBufferSize))
	ok = vpAnd(ok, vpAnd(a.TCPKeepAlive == b.TCPKeepAlive, a.TCPNoDelay == b.TCPNoDelay))
	ok = vpAnd(ok, vpAnd(a.Async == b.Async, a.EnableRateLimiting == b.EnableRateLimiting))
	ok = vpAnd(ok, len(a.AllowedIPs) == len(b.AllowedIPs))
	if a.Timeouts != nil && b.Timeouts != nil {
		ok = vpAnd(ok, vpAnd(a.Timeouts.ReadTimeout == b.Timeouts.ReadTimeout, a.Timeouts.WriteTimeout == b.Timeouts.WriteTimeout))
		ok = vpAnd(ok, vpAnd(a.Timeouts.LookupTimeout == b.Timeouts.LookupTimeout, a.Timeouts.DefaultTimeout == b.Timeouts.DefaultTimeout))
	} else {
		ok = vpAnd(ok, (a.Timeouts == nil) == (b.Timeouts == nil))
	}
	return ok
}

// vpComponentsFollow: the configuration GetExportOptions reports is the one in force inside the
// components the update re-sizes and re-times (attribute cache capacity, TTL, negative caching and
// its TTL; directory cache capacity and TTL).
func vpComponentsFollow(env *vpEnv, o ExportOptions, tag string) {
	c := env.nfs.attrCache
	vpAssert(c.maxSize == o.AttrCacheSize, tag+"-attr-cache-capacity-is-the-reported-one")
	vpAssert(c.ttl == o.AttrCacheTimeout, tag+"-attr-cache-ttl-is-the-reported-one")
	vpAssert(c.enableNegative == o.CacheNegativeLookups, tag+"-negative-caching-is-the-reported-one")
	vpAssert(c.negativeTTL == o.NegativeCacheTimeout, tag+"-negative-ttl-is-the-reported-one")
	if d := env.nfs.dirCache; d != nil {
		vpAssert(d.maxEntries == o.DirCacheMaxEntries, tag+"-dir-cache-capacity-is-the-reported-one")
		vpAssert(d.timeout == o.DirCacheTimeout, tag+"-dir-cache-ttl-is-the-reported-one")
	}
}

// vpDrainLockFree: when an update has returned - accepted or refused - the drain lock it takes to
// keep requests out is free again (otherwise every later request is answered "retry later" and the
// next update never returns).
func vpDrainLockFree(env *vpEnv, tag string) {
	got := env.nfs.policyRWMu.TryLock()
	vpAssert(got, tag+"-drain-lock-released")
	if got {
		env.nfs.policyRWMu.Unlock()
	}
}

// vpServes: READ, WRITE and LOOKUP are served with the configuration now in force.
func vpServes(env *vpEnv, hd, hx uint64, tag string) {
	t := env.nfs.tuning.Load()
	vpAssert(t.TransferSize > 0, tag+"-transfer-size-positive")
	vpAssert(t.Timeouts != nil, tag+"-timeouts-present")
	if t.Timeouts != nil {
		to := t.Timeouts
		vpAssert(vpAnd(vpAnd(to.ReadTimeout > 0, to.WriteTimeout > 0), vpAnd(to.LookupTimeout > 0, to.DefaultTimeout > 0)), tag+"-timeouts-positive")
	}
	var b vpBuf
	b.fh(hx).u64(0).u32(1)
	r := vpDecodeRead(vpReplyBytes(env.call(NFSPROC3_READ, b.Bytes())))
	vpAssert(r.status == NFS_OK, tag+"-read-served")
	if r.status == NFS_OK {
		vpAssert(r.count == 1, tag+"-read-returns-data")
	}
	var l vpBuf
	l.fh(hd).str("x")
	rl := &vpRd{b: vpReplyBytes(env.call(NFSPROC3_LOOKUP, l.Bytes()))}
	vpAssert(rl.u32() == NFS_OK, tag+"-lookup-served")
	var w vpBuf
	w.fh(hx).u64(0).u32(1).u32(0).opaque([]byte{'H'})
	rw := &vpRd{b: vpReplyBytes(env.call(NFSPROC3_WRITE, w.Bytes()))}
	vpAssert(rw.u32() == NFS_OK, tag+"-write-served")
}

// Field groups of VPH_C24_export_update: the fields of one group are symbolic, the others hold fixed
// positive non-default values. UpdateTuningOptions treats every field independently (one
// comparison per field), so all fields symbolic at once only multiplies paths (2^21 sign
// combinations); group 5 covers the simultaneous cases users actually hit: every field zero
// (ExportOptions{}) or every field negative.
const (
	vpC24GCache = iota
	vpC24GDirPool
	vpC24GConn
	vpC24GTimeoutsA
	vpC24GTimeoutsB
	vpC24GAll
)

func vpC24Int(sym bool, all int, name string, fixed int) int {
	if sym {
		return vpSmallInt(name)
	}
	if all != 0 {
		return all - 1 // 0 or -1
	}
	return fixed
}

func vpC24Dur(sym bool, all int, name string, fixed time.Duration) time.Duration {
	if sym {
		return vpDur(name)
	}
	if all != 0 {
		return time.Duration(all - 1)
	}
	return fixed
}

func vpC24Timeout(sym bool, all int, name string, fixed time.Duration) time.Duration {
	if sym {
		return vpTimeoutDur(name)
	}
	if all != 0 {
		return time.Duration(all - 1)
	}
	return fixed
}

func VPH_C24_export_update() {
	fs := vpStdTree()
	// the components start from non-default settings, so that an update which falls back to the
	// defaults has something to change in them
	env := vpServer(fs, ExportOptions{Squash: "root", AttrCacheSize: 3, AttrCacheTimeout: time.Hour,
		CacheNegativeLookups: true, NegativeCacheTimeout: time.Hour,
		EnableDirCache: true, DirCacheTimeout: time.Hour, DirCacheMaxEntries: 4, DirCacheMaxDirSize: 5})
	hd, hx := env.handleFor("/d"), env.handleFor("/d/x")
	before := env.nfs.GetExportOptions()
	vpComponentsFollow(env, before, "before")

	g := vpChoose("group", vpC24GCache, vpC24GAll)
	all := 0
	if g == vpC24GAll {
		all = vpChoose("all", 1, 2) // 1: every numeric field 0, 2: every numeric field -1
	}
	n := ExportOptions{
		ReadOnly: false, Secure: vpBool("secure"), Async: vpBool("async"),
		MaxFileSize:          vpI64("maxfilesize"),
		TransferSize:         vpC24Int(g == vpC24GCache, all, "transfersize", 4096),
		AttrCacheTimeout:     vpC24Dur(g == vpC24GCache, all, "attrcachetimeout", 7*time.Second),
		AttrCacheSize:        vpC24Int(g == vpC24GCache, all, "attrcachesize", 77),
		CacheNegativeLookups: vpBool("negative"),
		NegativeCacheTimeout: vpC24Dur(g == vpC24GCache, all, "negativetimeout", 3*time.Second),
		DirCacheTimeout:      vpC24Dur(g == vpC24GDirPool, all, "dircachetimeout", 11*time.Second),
		DirCacheMaxEntries:   vpC24Int(g == vpC24GDirPool, all, "dircachemaxentries", 55),
		DirCacheMaxDirSize:   vpC24Int(g == vpC24GDirPool, all, "dircachemaxdirsize", 66),
		MaxWorkers:           vpC24Int(g == vpC24GDirPool, all, "maxworkers", 3),
		MaxConnections:       vpC24Int(g == vpC24GConn, all, "maxconnections", 9),
		IdleTimeout:          vpC24Dur(g == vpC24GConn, all, "idletimeout", time.Minute),
		SendBufferSize:       vpC24Int(g == vpC24GConn, all, "sendbuffer", 8192),
		ReceiveBufferSize:    vpC24Int(g == vpC24GConn, all, "recvbuffer", 8192),
		TCPKeepAlive:         vpBool("keepalive"), TCPNoDelay: vpBool("nodelay"),
	}
	switch vpChoose("squash", 0, 3) {
	case 0:
		n.Squash = ""
	case 1:
		n.Squash = "root"
	case 2:
		n.Squash = "all" // a change: must be rejected as a whole
	case 3:
		n.Squash = "ROOT" // another spelling is still a different value: accepted as a whole or rejected as a whole
	}
	withTimeouts := true
	if vpAnd(g != vpC24GTimeoutsA, g != vpC24GTimeoutsB) {
		withTimeouts = vpBool("with-timeouts")
	}
	if withTimeouts {
		a, b := g == vpC24GTimeoutsA, g == vpC24GTimeoutsB
		n.Timeouts = &TimeoutConfig{
			ReadTimeout:    vpC24Timeout(a, all, "t.read", 2*time.Second),
			WriteTimeout:   vpC24Timeout(a, all, "t.write", 2*time.Second),
			LookupTimeout:  vpC24Timeout(a, all, "t.lookup", 2*time.Second),
			DefaultTimeout: vpC24Timeout(a, all, "t.default", 2*time.Second),
			ReaddirTimeout: vpC24Timeout(b, all, "t.readdir", 2*time.Second),
			CreateTimeout:  vpC24Timeout(b, all, "t.create", 2*time.Second),
			RemoveTimeout:  vpC24Timeout(b, all, "t.remove", 2*time.Second),
			RenameTimeout:  vpC24Timeout(b, all, "t.rename", 2*time.Second),
			HandleTimeout:  vpC24Timeout(b, all, "t.handle", 2*time.Second),
		}
	}
	err := env.nfs.UpdateExportOptions(n)
	after := env.nfs.GetExportOptions()
	if err != nil {
		vpReach("rejected")
		vpAssert(vpOr(n.Squash == "all", n.Squash == "ROOT"), "only-squash-change-rejected")
		vpKnown("K-C24-rejected-update-applies-tuning", true)
		vpAssert(vpSameConfig(before, after), "rejected-update-leaves-configuration-unchanged")
		vpComponentsFollow(env, before, "after-rejected")
		vpDrainLockFree(env, "after-rejected")
		vpServes(env, hd, hx, "after-rejected")
		vpKnownClear()
		return
	}
	vpReach("accepted")
	vpKnown("K-C24-zero-fields-not-defaulted", true)
	vpAssert(after.TransferSize == vpDefInt(n.TransferSize, 65536), "transfersize-defaulted")
	vpAssert(after.AttrCacheTimeout == vpDefDur(n.AttrCacheTimeout, 5*time.Second), "attrcachetimeout-defaulted")
	vpAssert(after.AttrCacheSize == vpDefInt(n.AttrCacheSize, 10000), "attrcachesize-defaulted")
	vpAssert(after.NegativeCacheTimeout == vpDefDur(n.NegativeCacheTimeout, 5*time.Second), "negativetimeout-defaulted")
	vpAssert(after.DirCacheTimeout == vpDefDur(n.DirCacheTimeout, 10*time.Second), "dircachetimeout-defaulted")
	vpAssert(after.DirCacheMaxEntries == vpDefInt(n.DirCacheMaxEntries, 1000), "dircachemaxentries-defaulted")
	vpAssert(after.DirCacheMaxDirSize == vpDefInt(n.DirCacheMaxDirSize, 10000), "dircachemaxdirsize-defaulted")
	vpAssert(after.MaxWorkers == vpDefInt(n.MaxWorkers, runtime.NumCPU()*4), "maxworkers-defaulted")
	vpAssert(after.MaxConnections == vpDefInt(n.MaxConnections, 100), "maxconnections-defaulted")
	vpAssert(after.IdleTimeout == vpDefDur(n.IdleTimeout, 5*time.Minute), "idletimeout-defaulted")
	vpAssert(after.SendBufferSize == vpDefInt(n.SendBufferSize, 262144), "sendbuffer-defaulted")
	vpAssert(after.ReceiveBufferSize == vpDefInt(n.ReceiveBufferSize, 262144), "recvbuffer-defaulted")
	vpAssert(after.Timeouts != nil, "timeouts-present")
	if after.Timeouts != nil && n.Timeouts != nil {
		at, nt := after.Timeouts, n.Timeouts
		vpAssert(at.ReadTimeout == vpDefDur(nt.ReadTimeout, 30*time.Second), "readtimeout-defaulted")
		vpAssert(at.WriteTimeout == vpDefDur(nt.WriteTimeout, 60*time.Second), "writetimeout-defaulted")
		vpAssert(at.LookupTimeout == vpDefDur(nt.LookupTimeout, 10*time.Second), "lookuptimeout-defaulted")
		vpAssert(at.DefaultTimeout == vpDefDur(nt.DefaultTimeout, 30*time.Second), "defaulttimeout-defaulted")
		vpAssert(at.ReaddirTimeout == vpDefDur(nt.ReaddirTimeout, 30*time.Second), "readdirtimeout-defaulted")
		vpAssert(at.CreateTimeout == vpDefDur(nt.CreateTimeout, 15*time.Second), "createtimeout-defaulted")
		vpAssert(at.RemoveTimeout == vpDefDur(nt.RemoveTimeout, 15*time.Second), "removetimeout-defaulted")
		vpAssert(at.RenameTimeout == vpDefDur(nt.RenameTimeout, 20*time.Second), "renametimeout-defaulted")
		vpAssert(at.HandleTimeout == vpDefDur(nt.HandleTimeout, 5*time.Second), "handletimeout-defaulted")
	}
	vpKnownClear()
	// what GetExportOptions reports is what the handlers read
	t := env.nfs.tuning.Load()
	p := env.nfs.policy.Load()
	vpAssert(vpAnd(after.TransferSize == t.TransferSize, after.AttrCacheSize == t.AttrCacheSize), "reported-tuning-is-in-force")
	vpAssert(vpAnd(after.ReadOnly == p.ReadOnly, vpAnd(after.Secure == p.Secure, after.MaxFileSize == p.MaxFileSize)), "reported-policy-is-in-force")
	vpAssert(vpAnd(after.Secure == n.Secure, after.MaxFileSize == n.MaxFileSize), "policy-fields-applied")
	// the caches were really resized / re-timed
	vpAssert(env.nfs.attrCache.MaxSize() > 0, "attr-cache-capacity-positive")
	vpComponentsFollow(env, after, "after-update")
	vpDrainLockFree(env, "after-update")
	// what GetExportOptions hands out is a copy: editing it in place changes nothing until it is
	// passed to an update
	if after.Timeouts != nil {
		was := env.nfs.tuning.Load().Timeouts.ReadTimeout
		after.Timeouts.ReadTimeout = 0
		after.Timeouts.LookupTimeout = -1
		vpAssert(env.nfs.tuning.Load().Timeouts.ReadTimeout == was, "returned-timeouts-do-not-alias-the-configuration")
		again := env.nfs.GetExportOptions()
		vpAssert(vpAnd(again.Timeouts != nil, again.Timeouts.ReadTimeout == was), "configuration-unchanged-by-editing-the-returned-options")
	}
	vpKnown("K-C24-zero-fields-not-defaulted", true)
	vpServes(env, hd, hx, "after-update")
}

func VPH_C24_tuning_update() {
	fs := vpStdTree()
	env := vpServer(fs, ExportOptions{})
	hd, hx := env.handleFor("/d"), env.handleFor("/d/x")
	ts, acs := vpSmallInt("transfersize"), vpSmallInt("attrcachesize")
	act := vpDur("attrcachetimeout")
	nilTimeouts := vpBool("nil-timeouts")
	env.nfs.UpdateTuningOptions(func(t *TuningOptions) {
		t.TransferSize = ts
		t.AttrCacheSize = acs
		t.AttrCacheTimeout = act
		if nilTimeouts {
			t.Timeouts = nil
		} else {
			t.Timeouts.ReadTimeout = vpTimeoutDur("t.read")
			t.Timeouts.DefaultTimeout = vpTimeoutDur("t.default")
		}
	})
	after := env.nfs.GetExportOptions()
	vpKnown("K-C24-zero-fields-not-defaulted", true)
	vpAssert(after.TransferSize == vpDefInt(ts, 65536), "transfersize-defaulted")
	vpAssert(after.AttrCacheSize == vpDefInt(acs, 10000), "attrcachesize-defaulted")
	vpAssert(after.AttrCacheTimeout == vpDefDur(act, 5*time.Second), "attrcachetimeout-defaulted")
	vpServes(env, hd, hx, "after-tuning")
}

func VPH_C24_policy_update() {
	fs := vpStdTree()
	env := vpServer(fs, ExportOptions{Squash: "root"})
	hd, hx := env.handleFor("/d"), env.handleFor("/d/x")
	before := env.nfs.GetExportOptions()
	p := PolicyOptions{ReadOnly: false, Secure: vpBool("secure"), MaxFileSize: vpI64("maxfilesize"), EnableRateLimiting: false}
	switch vpChoose("squash", 0, 3) {
	case 0:
		p.Squash = "root"
	case 1:
		p.Squash = "all"
	case 2:
		p.Squash = ""
	case 3:
		p.Squash = "Root"
	}
	// a TLS section: none, disabled, or enabled with files that cannot be loaded (whether such an
	// update is accepted or refused, the server keeps serving and can be updated again)
	switch vpChoose("tls", 0, 2) {
	case 1:
		p.TLS = &TLSConfig{Enabled: false}
	case 2:
		p.TLS = &TLSConfig{Enabled: true, CertFile: "missing.pem", KeyFile: "missing.pem"}
		vpReach("tls-section-that-cannot-be-loaded")
	}
	err := env.nfs.UpdatePolicyOptions(p)
	after := env.nfs.GetExportOptions()
	if err != nil {
		vpReach("rejected")
		vpAssert(vpSameConfig(before, after), "rejected-policy-update-leaves-configuration-unchanged")
	} else {
		vpReach("accepted")
		vpAssert(p.Squash == "root", "squash-change-is-rejected")
		vpAssert(vpAnd(after.Secure == p.Secure, after.MaxFileSize == p.MaxFileSize), "policy-applied")
		vpAssert(after.TransferSize == before.TransferSize, "tuning-untouched")
	}
	vpServes(env, hd, hx, "after-policy")
	vpDrainLockFree(env, "after-policy")
	// and a further update goes through (nothing was left locked)
	q := *env.nfs.policy.Load()
	vpAssert(env.nfs.UpdatePolicyOptions(q) == nil, "a-further-update-is-accepted")
	vpServes(env, hd, hx, "after-second-policy-update")
}
