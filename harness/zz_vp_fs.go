package absnfs

// vpFS: the backend stub. A finite universe of concrete paths whose per-path
// state may be symbolic. Contract: POSIX / package os semantics as absfs
// documents them. Every call is logged so trace properties are assertions over
// the log.

import (
	"io"
	"math"
	"io/fs"
	"os"
	"path"
	"sort"
	"syscall"
	"time"

	"github.com/absfs/absfs"
)

const (
	vpKFile = 0
	vpKDir  = 1
	vpKLink = 2
)

type vpNode struct {
	exists  bool
	kind    uint8 // vpKFile, vpKDir, vpKLink
	perm    uint32
	size    int64
	uid     uint32
	gid     uint32
	mtime   int64 // seconds
	target  string
	data    []byte // content when modelled (len(data) == size, concrete)
	durable []byte // content that survived the last Sync (C22)
	hasData bool
}

type vpCall struct {
	op    string
	path  string
	path2 string
	a     int64
	b     int64
	flag  int
	data  []byte
}

type vpFS struct {
	nodes    map[string]*vpNode
	order    []string
	log      []vpCall
	stored   int    // WriteAt calls that changed the file (a call the backend itself refuses stores nothing)
	failOp   string // operation that fails when failOn (fault injection)
	failErr  error
	failOnce bool // the failOp fault happens once only (transient)
	failNth  int // fault injection by position: the failNth-th fallible operation fails (0 = off)
	failSeen int
	readOnlyFail bool
}

var vpMutating = map[string]bool{
	"OpenFile-w": true, "WriteAt": true, "Write": true, "Truncate": true, "FTruncate": true, "Create": true, "Remove": true, "RemoveAll": true,
	"Rename": true, "Mkdir": true, "MkdirAll": true, "Symlink": true, "Chmod": true, "Chown": true, "Lchown": true, "Chtimes": true, "WriteString": true,
}

func vpNewFS() *vpFS {
	f := &vpFS{nodes: map[string]*vpNode{}}
	f.add("/", &vpNode{exists: true, kind: vpKDir, perm: 0755, mtime: 1_600_000_000})
	return f
}

func (f *vpFS) add(p string, n *vpNode) *vpNode {
	if _, ok := f.nodes[p]; !ok {
		f.order = append(f.order, p)
	}
	f.nodes[p] = n
	return n
}

func (f *vpFS) addDir(p string) *vpNode {
	return f.add(p, &vpNode{exists: true, kind: vpKDir, perm: 0755, mtime: 1_600_000_000})
}

func (f *vpFS) addFile(p string, size int64) *vpNode {
	return f.add(p, &vpNode{exists: true, kind: vpKFile, perm: 0644, size: size, mtime: 1_600_000_000})
}

func (f *vpFS) addFileData(p string, data []byte) *vpNode {
	return f.add(p, &vpNode{exists: true, kind: vpKFile, perm: 0644, size: int64(len(data)), mtime: 1_600_000_000, data: data, hasData: true})
}

func (f *vpFS) addLink(p, target string) *vpNode {
	return f.add(p, &vpNode{exists: true, kind: vpKLink, perm: 0777, size: int64(len(target)), target: target, mtime: 1_600_000_000})
}

// addAbsent declares a path of the universe that does not exist (so that it can be created).
func (f *vpFS) addAbsent(p string) *vpNode {
	return f.add(p, &vpNode{exists: false})
}

func (f *vpFS) rec(c vpCall) { f.log = append(f.log, c) }

func (f *vpFS) mutations() int {
	n := 0
	for _, c := range f.log {
		if vpMutating[c.op] {
			n++
		}
	}
	return n
}

func (f *vpFS) count(op string) int {
	n := 0
	for _, c := range f.log {
		if c.op == op {
			n++
		}
	}
	return n
}

func (f *vpFS) last(op string) *vpCall {
	for i := len(f.log) - 1; i >= 0; i-- {
		if f.log[i].op == op {
			return &f.log[i]
		}
	}
	return nil
}

func vpErr(op, p string, e syscall.Errno) error {
	return &os.PathError{Op: op, Path: p, Err: e}
}

func (f *vpFS) fail(op string) error {
	if f.failOp == op {
		if f.failOnce {
			f.failOp = "" // a transient fault: the next attempt goes through
		}
		return f.failErr
	}
	// failNth: the n-th backend operation that can fail does, whichever it is
	if f.failNth > 0 {
		f.failSeen++
		if f.failSeen == f.failNth {
			return f.failErr
		}
	}
	return nil
}

// lookup returns the node for an exact path of the universe (no symlink resolution).
func (f *vpFS) lookup(p string) *vpNode {
	n, ok := f.nodes[p]
	if !ok {
		return nil
	}
	if !n.exists {
		return nil
	}
	return n
}

// resolve follows a final symlink once (targets are relative to the link's directory or absolute).
func (f *vpFS) resolve(p string) *vpNode {
	n := f.lookup(p)
	if n == nil {
		return nil
	}
	if n.kind == vpKLink {
		t := n.target
		if !path.IsAbs(t) {
			t = path.Join(path.Dir(p), t)
		}
		m := f.lookup(path.Clean(t))
		if m == nil {
			return nil
		}
		if m.kind == vpKLink {
			return nil // one level only; deeper chains are outside the universe
		}
		return m
	}
	return n
}

func (f *vpFS) parentOK(p string) bool {
	d := path.Dir(p)
	n := f.lookup(d)
	if n == nil {
		return false
	}
	return n.kind == vpKDir
}

func (f *vpFS) children(dir string) []string {
	var out []string
	for _, p := range f.order {
		if p == "/" || p == dir {
			continue
		}
		if path.Dir(p) == dir {
			if n := f.nodes[p]; n.exists {
				out = append(out, p)
			}
		}
	}
	sort.Strings(out)
	return out
}

// ---- os.FileInfo

type vpInfo struct {
	name  string
	size  int64
	mode  os.FileMode
	mtime int64
}

func (i *vpInfo) Name() string       { return i.name }
func (i *vpInfo) Size() int64        { return i.size }
func (i *vpInfo) Mode() os.FileMode  { return i.mode }
func (i *vpInfo) ModTime() time.Time { return time.Unix(i.mtime, 0) }
func (i *vpInfo) IsDir() bool        { return i.mode&os.ModeDir != 0 }
func (i *vpInfo) Sys() interface{}   { return nil }

// fs.DirEntry
func (i *vpInfo) Type() os.FileMode          { return i.mode & os.ModeType }
func (i *vpInfo) Info() (os.FileInfo, error) { return i, nil }

func vpModeOf(n *vpNode) os.FileMode {
	// bitwise so that a symbolic perm/kind does not fork
	p := n.perm
	m := os.FileMode(p&0777) | os.FileMode((p>>11)&1)<<23 | os.FileMode((p>>10)&1)<<22 | os.FileMode((p>>9)&1)<<20
	t := vpIteU32(n.kind == vpKDir, uint32(os.ModeDir), vpIteU32(n.kind == vpKLink, uint32(os.ModeSymlink), 0))
	return m | os.FileMode(t)
}

func (f *vpFS) info(p string, n *vpNode) *vpInfo {
	return &vpInfo{name: path.Base(p), size: n.size, mode: vpModeOf(n), mtime: n.mtime}
}

// ---- absfs.SymlinkFileSystem

func (f *vpFS) Stat(name string) (os.FileInfo, error) {
	f.rec(vpCall{op: "Stat", path: name})
	if e := f.fail("Stat"); e != nil {
		return nil, e
	}
	n := f.resolve(name)
	if n == nil {
		return nil, vpErr("stat", name, syscall.ENOENT)
	}
	return f.info(name, n), nil
}

func (f *vpFS) Lstat(name string) (os.FileInfo, error) {
	f.rec(vpCall{op: "Lstat", path: name})
	if e := f.fail("Lstat"); e != nil {
		return nil, e
	}
	n := f.lookup(name)
	if n == nil {
		return nil, vpErr("lstat", name, syscall.ENOENT)
	}
	return f.info(name, n), nil
}

func (f *vpFS) OpenFile(name string, flag int, perm os.FileMode) (absfs.File, error) {
	op := "OpenFile"
	if flag&(os.O_WRONLY|os.O_RDWR|os.O_CREATE|os.O_TRUNC|os.O_APPEND) != 0 {
		op = "OpenFile-w"
	}
	f.rec(vpCall{op: op, path: name, flag: flag, a: int64(perm)})
	if e := f.fail("OpenFile"); e != nil {
		return nil, e
	}
	n := f.resolve(name)
	if n == nil {
		if flag&os.O_CREATE == 0 {
			return nil, vpErr("open", name, syscall.ENOENT)
		}
		if f.lookup(name) != nil {
			// dangling symlink: creation through it is outside the universe
			return nil, vpErr("open", name, syscall.ENOENT)
		}
		if !f.parentOK(name) {
			return nil, vpErr("open", name, syscall.ENOENT)
		}
		slot, ok := f.nodes[name]
		if !ok {
			slot = f.addAbsent(name)
		}
		*slot = vpNode{exists: true, kind: vpKFile, perm: uint32(perm & 0777), mtime: 1_600_000_100, hasData: true, data: []byte{}}
		n = slot
	} else {
		if flag&os.O_CREATE != 0 && flag&os.O_EXCL != 0 {
			return nil, vpErr("open", name, syscall.EEXIST)
		}
		if n.kind == vpKDir && flag&(os.O_WRONLY|os.O_RDWR) != 0 {
			return nil, vpErr("open", name, syscall.EISDIR)
		}
		if flag&os.O_TRUNC != 0 && n.kind == vpKFile {
			n.size = 0
			if n.hasData {
				n.data = []byte{}
			}
			n.mtime = 1_600_000_100
		}
	}
	return &vpFile{fs: f, path: name, node: n, flag: flag}, nil
}

func (f *vpFS) Open(name string) (absfs.File, error) {
	return f.OpenFile(name, os.O_RDONLY, 0)
}

func (f *vpFS) Create(name string) (absfs.File, error) {
	f.rec(vpCall{op: "Create", path: name})
	if e := f.fail("Create"); e != nil {
		return nil, e
	}
	return f.OpenFile(name, os.O_RDWR|os.O_CREATE|os.O_TRUNC, 0666)
}

func (f *vpFS) Mkdir(name string, perm os.FileMode) error {
	f.rec(vpCall{op: "Mkdir", path: name, a: int64(perm)})
	if e := f.fail("Mkdir"); e != nil {
		return e
	}
	if f.lookup(name) != nil {
		return vpErr("mkdir", name, syscall.EEXIST)
	}
	if !f.parentOK(name) {
		return vpErr("mkdir", name, syscall.ENOENT)
	}
	slot, ok := f.nodes[name]
	if !ok {
		slot = f.addAbsent(name)
	}
	*slot = vpNode{exists: true, kind: vpKDir, perm: uint32(perm & 0777), mtime: 1_600_000_100}
	return nil
}

func (f *vpFS) MkdirAll(name string, perm os.FileMode) error {
	f.rec(vpCall{op: "MkdirAll", path: name, a: int64(perm)})
	if f.lookup(name) != nil {
		return nil
	}
	return f.Mkdir(name, perm)
}

func (f *vpFS) Remove(name string) error {
	f.rec(vpCall{op: "Remove", path: name})
	if e := f.fail("Remove"); e != nil {
		return e
	}
	n := f.lookup(name)
	if n == nil {
		return vpErr("remove", name, syscall.ENOENT)
	}
	if n.kind == vpKDir {
		if len(f.children(name)) > 0 {
			return vpErr("remove", name, syscall.ENOTEMPTY)
		}
	}
	n.exists = false
	return nil
}

func (f *vpFS) RemoveAll(name string) error {
	f.rec(vpCall{op: "RemoveAll", path: name})
	for _, p := range f.order {
		if p == name || (len(p) > len(name) && p[:len(name)] == name && p[len(name)] == '/') {
			f.nodes[p].exists = false
		}
	}
	return nil
}

func (f *vpFS) Rename(oldpath, newpath string) error {
	f.rec(vpCall{op: "Rename", path: oldpath, path2: newpath})
	if e := f.fail("Rename"); e != nil {
		return e
	}
	n := f.lookup(oldpath)
	if n == nil {
		return vpErr("rename", oldpath, syscall.ENOENT)
	}
	if !f.parentOK(newpath) {
		return vpErr("rename", newpath, syscall.ENOENT)
	}
	if oldpath == newpath {
		return nil
	}
	if d := f.lookup(newpath); d != nil {
		if d.kind == vpKDir && n.kind != vpKDir {
			return vpErr("rename", newpath, syscall.EISDIR)
		}
		if d.kind != vpKDir && n.kind == vpKDir {
			return vpErr("rename", newpath, syscall.ENOTDIR)
		}
		if d.kind == vpKDir && len(f.children(newpath)) > 0 {
			return vpErr("rename", newpath, syscall.ENOTEMPTY)
		}
	}
	slot, ok := f.nodes[newpath]
	if !ok {
		slot = f.addAbsent(newpath)
	}
	// move descendants of a directory
	if n.kind == vpKDir {
		for _, p := range append([]string(nil), f.order...) {
			if len(p) > len(oldpath) && p[:len(oldpath)] == oldpath && p[len(oldpath)] == '/' {
				c := f.nodes[p]
				if c.exists {
					np := newpath + p[len(oldpath):]
					cs, ok := f.nodes[np]
					if !ok {
						cs = f.addAbsent(np)
					}
					*cs = *c
					c.exists = false
				}
			}
		}
	}
	*slot = *n
	n.exists = false
	return nil
}

func (f *vpFS) Chmod(name string, mode os.FileMode) error {
	f.rec(vpCall{op: "Chmod", path: name, a: int64(mode)})
	if e := f.fail("Chmod"); e != nil {
		return e
	}
	n := f.resolve(name)
	if n == nil {
		return vpErr("chmod", name, syscall.ENOENT)
	}
	mm := uint32(mode)
	n.perm = mm&0777 | ((mm>>23)&1)<<11 | ((mm>>22)&1)<<10 | ((mm>>20)&1)<<9
	return nil
}

func (f *vpFS) Chtimes(name string, atime time.Time, mtime time.Time) error {
	f.rec(vpCall{op: "Chtimes", path: name})
	if e := f.fail("Chtimes"); e != nil {
		return e
	}
	n := f.resolve(name)
	if n == nil {
		return vpErr("chtimes", name, syscall.ENOENT)
	}
	if !mtime.IsZero() {
		n.mtime = mtime.Unix()
	}
	return nil
}

func (f *vpFS) Chown(name string, uid, gid int) error {
	f.rec(vpCall{op: "Chown", path: name, a: int64(uid), b: int64(gid)})
	if e := f.fail("Chown"); e != nil {
		return e
	}
	n := f.resolve(name)
	if n == nil {
		return vpErr("chown", name, syscall.ENOENT)
	}
	n.uid, n.gid = uint32(uid), uint32(gid)
	return nil
}

func (f *vpFS) Lchown(name string, uid, gid int) error {
	f.rec(vpCall{op: "Lchown", path: name, a: int64(uid), b: int64(gid)})
	if e := f.fail("Lchown"); e != nil {
		return e
	}
	n := f.lookup(name)
	if n == nil {
		return vpErr("lchown", name, syscall.ENOENT)
	}
	n.uid, n.gid = uint32(uid), uint32(gid)
	return nil
}

func (f *vpFS) Readlink(name string) (string, error) {
	f.rec(vpCall{op: "Readlink", path: name})
	if e := f.fail("Readlink"); e != nil {
		return "", e
	}
	n := f.lookup(name)
	if n == nil {
		return "", vpErr("readlink", name, syscall.ENOENT)
	}
	if n.kind != vpKLink {
		return "", vpErr("readlink", name, syscall.EINVAL)
	}
	return n.target, nil
}

func (f *vpFS) Symlink(oldname, newname string) error {
	f.rec(vpCall{op: "Symlink", path: newname, path2: oldname})
	if e := f.fail("Symlink"); e != nil {
		return e
	}
	if f.lookup(newname) != nil {
		return vpErr("symlink", newname, syscall.EEXIST)
	}
	if !f.parentOK(newname) {
		return vpErr("symlink", newname, syscall.ENOENT)
	}
	slot, ok := f.nodes[newname]
	if !ok {
		slot = f.addAbsent(newname)
	}
	*slot = vpNode{exists: true, kind: vpKLink, perm: 0777, size: int64(len(oldname)), target: oldname, mtime: 1_600_000_100}
	return nil
}

func (f *vpFS) ReadDir(name string) ([]fs.DirEntry, error) {
	f.rec(vpCall{op: "ReadDir", path: name})
	if e := f.fail("ReadDir"); e != nil {
		return nil, e
	}
	n := f.resolve(name)
	if n == nil {
		return nil, vpErr("readdir", name, syscall.ENOENT)
	}
	if n.kind != vpKDir {
		return nil, vpErr("readdir", name, syscall.ENOTDIR)
	}
	var out []fs.DirEntry
	for _, c := range f.children(name) {
		out = append(out, f.info(c, f.nodes[c]))
	}
	return out, nil
}

func (f *vpFS) ReadFile(name string) ([]byte, error) {
	f.rec(vpCall{op: "ReadFile", path: name})
	n := f.resolve(name)
	if n == nil {
		return nil, vpErr("open", name, syscall.ENOENT)
	}
	return append([]byte(nil), n.data...), nil
}

func (f *vpFS) Sub(dir string) (fs.FS, error) { return nil, absfs.ErrNotImplemented }
func (f *vpFS) Chdir(dir string) error        { return nil }
func (f *vpFS) Getwd() (string, error)        { return "/", nil }
func (f *vpFS) TempDir() string               { return "/tmp" }

func (f *vpFS) Truncate(name string, size int64) error {
	f.rec(vpCall{op: "Truncate", path: name, a: size})
	if e := f.fail("Truncate"); e != nil {
		return e
	}
	n := f.resolve(name)
	if n == nil {
		return vpErr("truncate", name, syscall.ENOENT)
	}
	if n.kind == vpKDir {
		return vpErr("truncate", name, syscall.EISDIR)
	}
	if size < 0 {
		return vpErr("truncate", name, syscall.EINVAL)
	}
	n.setSize(size)
	return nil
}

func (n *vpNode) setSize(size int64) {
	if n.hasData && size > 32 {
		// content is only modelled for small files
		n.hasData, n.data = false, nil
	}
	if n.hasData {
		sz := vpConcreteInt(int(size))
		if sz <= len(n.data) {
			n.data = n.data[:sz]
		} else {
			n.data = append(n.data, make([]byte, sz-len(n.data))...)
		}
		n.size = int64(sz)
	} else {
		n.size = size
	}
	n.mtime = 1_600_000_100
}

// ---- absfs.File

type vpFile struct {
	fs     *vpFS
	path   string
	node   *vpNode
	flag   int
	pos    int64
	closed bool
	dirPos int
}

func (h *vpFile) Name() string { return h.path }

func (h *vpFile) Close() error {
	h.fs.rec(vpCall{op: "Close", path: h.path})
	h.closed = true
	return nil
}

func (h *vpFile) Sync() error {
	h.fs.rec(vpCall{op: "Sync", path: h.path})
	if e := h.fs.fail("Sync"); e != nil {
		return e
	}
	if h.node.hasData {
		h.node.durable = append([]byte(nil), h.node.data...)
	}
	return nil
}

func (h *vpFile) Stat() (os.FileInfo, error) {
	h.fs.rec(vpCall{op: "FStat", path: h.path})
	return h.fs.info(h.path, h.node), nil
}

func (h *vpFile) ReadAt(b []byte, off int64) (int, error) {
	h.fs.rec(vpCall{op: "ReadAt", path: h.path, a: off, b: int64(len(b))})
	if e := h.fs.fail("ReadAt"); e != nil {
		return 0, e
	}
	if off < 0 {
		return 0, vpErr("readat", h.path, syscall.EINVAL)
	}
	n := h.node
	if off >= n.size {
		return 0, io.EOF
	}
	avail := n.size - off
	cnt := int64(len(b))
	short := false
	if avail < cnt {
		cnt = avail
		short = true
	}
	c := vpConcreteInt(int(cnt))
	if n.hasData {
		o := vpConcreteInt(int(off))
		copy(b[:c], n.data[o:o+c])
	} else {
		for i := 0; i < c; i++ {
			b[i] = vpU8("fsdata")
		}
	}
	if short {
		return c, io.EOF
	}
	return c, nil
}

func (h *vpFile) Read(b []byte) (int, error) {
	n, err := h.ReadAt(b, h.pos)
	h.pos += int64(n)
	return n, err
}

func (h *vpFile) WriteAt(b []byte, off int64) (int, error) {
	h.fs.rec(vpCall{op: "WriteAt", path: h.path, a: off, b: int64(len(b)), data: append([]byte(nil), b...)})
	if e := h.fs.fail("WriteAt"); e != nil {
		return 0, e
	}
	if off < 0 {
		return 0, vpErr("writeat", h.path, syscall.EINVAL)
	}
	n := h.node
	if len(b) == 0 {
		return 0, nil // a zero-length pwrite never extends the file
	}
	if off > math.MaxInt64-int64(len(b)) {
		return 0, vpErr("writeat", h.path, syscall.EFBIG) // the end offset does not fit off_t
	}
	end := off + int64(len(b))
	if n.hasData && end > 32 {
		n.hasData, n.data = false, nil
	}
	if n.hasData {
		o := vpConcreteInt(int(off))
		e := o + len(b)
		if e > len(n.data) {
			n.data = append(n.data, make([]byte, e-len(n.data))...)
		}
		copy(n.data[o:e], b)
		n.size = int64(len(n.data))
	} else if end > n.size {
		n.size = end
	}
	n.mtime = 1_600_000_100
	h.fs.stored++
	return len(b), nil
}

func (h *vpFile) Write(b []byte) (int, error) {
	n, err := h.WriteAt(b, h.pos)
	h.pos += int64(n)
	return n, err
}

func (h *vpFile) WriteString(s string) (int, error) { return h.Write([]byte(s)) }

func (h *vpFile) Seek(offset int64, whence int) (int64, error) {
	switch whence {
	case io.SeekStart:
		h.pos = offset
	case io.SeekCurrent:
		h.pos += offset
	case io.SeekEnd:
		h.pos = h.node.size + offset
	}
	return h.pos, nil
}

func (h *vpFile) Truncate(size int64) error {
	h.fs.rec(vpCall{op: "FTruncate", path: h.path, a: size})
	if e := h.fs.fail("Truncate"); e != nil {
		return e
	}
	if size < 0 {
		return vpErr("truncate", h.path, syscall.EINVAL)
	}
	h.node.setSize(size)
	return nil
}

func (h *vpFile) Readdir(n int) ([]os.FileInfo, error) {
	h.fs.rec(vpCall{op: "Readdir", path: h.path, a: int64(n)})
	if e := h.fs.fail("Readdir"); e != nil {
		return nil, e
	}
	if h.node.kind != vpKDir {
		return nil, vpErr("readdir", h.path, syscall.ENOTDIR)
	}
	all := h.fs.children(h.path)
	var out []os.FileInfo
	for h.dirPos < len(all) && (n <= 0 || len(out) < n) {
		c := all[h.dirPos]
		out = append(out, h.fs.info(c, h.fs.nodes[c]))
		h.dirPos++
	}
	if n > 0 && len(out) == 0 {
		return nil, io.EOF
	}
	return out, nil
}

func (h *vpFile) Readdirnames(n int) ([]string, error) {
	infos, err := h.Readdir(n)
	var names []string
	for _, i := range infos {
		names = append(names, i.Name())
	}
	return names, err
}

func (h *vpFile) ReadDir(n int) ([]fs.DirEntry, error) {
	infos, err := h.Readdir(n)
	var out []fs.DirEntry
	for _, i := range infos {
		out = append(out, i.(*vpInfo))
	}
	return out, err
}
