package absnfs

// C13 — XDR, RPC and record-marking codecs are exact and bounded.

import (
	"bytes"
	"io"
	"runtime"
)

func init() {
	vpRegister("VPH_C13_scalars", VPH_C13_scalars)
	vpRegister("VPH_C13_string", VPH_C13_string)
	vpRegister("VPH_C13_string_limits", VPH_C13_string_limits)
	vpRegister("VPH_C13_rpccall", VPH_C13_rpccall)
	vpRegister("VPH_C13_rpccall_limits", VPH_C13_rpccall_limits)
	vpRegister("VPH_C13_truncated", VPH_C13_truncated)
	vpRegister("VPH_C13_authsys", VPH_C13_authsys)
	vpRegister("VPH_C13_record_read", VPH_C13_record_read)
	vpRegister("VPH_C13_record_write", VPH_C13_record_write)
	vpRegister("VPH_C13_record_write_sizes", VPH_C13_record_write_sizes)
	vpRegister("VPH_C13_record_limit", VPH_C13_record_limit)
	vpRegister("VPH_C13_record_limit_total", VPH_C13_record_limit_total)
}

// vpAllocGuard runs f and asserts that it allocated at most max bytes. In the
// engine the same obligation is discharged symbolically: every make() whose
// size is symbolic must be bounded by the harness's declared allocation bound
// on all values (assertion id "alloc-bound").
func vpAllocGuard(max uint64, f func()) {
	if vpSymbolic() {
		f()
		return
	}
	var a, b runtime.MemStats
	runtime.GC()
	runtime.ReadMemStats(&a)
	f()
	runtime.ReadMemStats(&b)
	vpAssert(b.TotalAlloc-a.TotalAlloc <= max+65536, "alloc-bound")
}

func VPH_C13_scalars() {
	v32, v64, fh := vpU32("v32"), vpU64("v64"), vpU64("fh")
	var buf bytes.Buffer
	vpAssert(xdrEncodeUint32(&buf, v32) == nil, "enc32")
	vpAssert(xdrEncodeUint64(&buf, v64) == nil, "enc64")
	vpAssert(xdrEncodeFileHandle(&buf, fh) == nil, "encfh")
	vpAssert(buf.Len() == 4+8+12, "encoded-size")
	r := bytes.NewReader(buf.Bytes())
	g32, err := xdrDecodeUint32(r)
	vpAssert(err == nil, "dec32-ok")
	vpAssert(g32 == v32, "dec32")
	hi, err1 := xdrDecodeUint32(r)
	lo, err2 := xdrDecodeUint32(r)
	vpAssert(vpAnd(err1 == nil, err2 == nil), "dec64-ok")
	vpAssert(uint64(hi)<<32|uint64(lo) == v64, "dec64-bigendian")
	gfh, err := xdrDecodeFileHandle(r)
	vpAssert(err == nil, "decfh-ok")
	vpAssert(gfh == fh, "decfh")
	vpAssert(r.Len() == 0, "consumed-exactly")

	// file handle of any other declared length is rejected, above 64 before reading data
	var b2 vpBuf
	l := vpU32("fhlen")
	vpAssume(l != 8)
	b2.u32(l).raw(vpBytes("fhdata", 12))
	var e2 error
	vpAllocGuard(64+3, func() { _, e2 = xdrDecodeFileHandle(bytes.NewReader(b2.Bytes())) })
	vpAssert(e2 != nil, "fh-bad-length-rejected")
}

func VPH_C13_string() {
	n := vpChoose("n", 0, 9)
	s := vpBytes("s", n)
	for i := range s {
		vpAssume(s[i] != 0) // documented: NUL bytes are rejected
	}
	sentinel := vpU32("sentinel")
	var buf bytes.Buffer
	vpAssert(xdrEncodeString(&buf, string(s)) == nil, "enc")
	padded := (n + 3) &^ 3
	vpAssert(buf.Len() == 4+padded, "encoded-size")
	// padding bytes are zero (RFC 4506)
	enc := buf.Bytes()
	for i := 4 + n; i < 4+padded; i++ {
		vpAssert(enc[i] == 0, "zero-padding")
	}
	xdrEncodeUint32(&buf, sentinel)
	r := bytes.NewReader(buf.Bytes())
	got, err := xdrDecodeString(r)
	vpAssert(err == nil, "dec-ok")
	vpAssert(got == string(s), "roundtrip")
	after, err := xdrDecodeUint32(r)
	vpAssert(err == nil, "sentinel-ok")
	vpAssert(after == sentinel, "consumed-padded-length")
	vpAssert(r.Len() == 0, "consumed-exactly")
	vpObserve("n", n)
}

func vpFiller(n int) []byte {
	b := make([]byte, n)
	for i := range b {
		b[i] = 'a'
	}
	return b
}

func VPH_C13_string_limits() {
	which := vpChoose("case", 0, 3)
	switch which {
	case 0:
		// any declared length above the limit is refused before anything of that size is allocated
		l := vpU32("len")
		vpAssume(l > MAX_XDR_STRING_LENGTH)
		var b vpBuf
		b.u32(l).raw(vpBytes("tail", 8))
		var err error
		vpAllocGuard(MAX_XDR_STRING_LENGTH, func() { _, err = xdrDecodeString(bytes.NewReader(b.Bytes())) })
		vpAssert(err != nil, "over-limit-rejected")
		vpReach("over-limit")
	case 1, 2, 3:
		n := MAX_XDR_STRING_LENGTH - 2 + which // limit-1, limit, limit+1
		var b vpBuf
		b.u32(uint32(n)).raw(vpFiller((n + 3) &^ 3))
		first := vpU8("first")
		vpAssume(first != 0)
		raw := b.Bytes()
		raw[4] = first
		s, err := xdrDecodeString(bytes.NewReader(raw))
		if n <= MAX_XDR_STRING_LENGTH {
			vpAssert(err == nil, "at-limit-accepted")
			vpAssert(len(s) == n, "at-limit-length")
			vpAssert(s[0] == first, "at-limit-content")
			vpReach("at-limit")
		} else {
			vpAssert(err != nil, "limit-plus-one-rejected")
			vpReach("limit-plus-one")
		}
	}
}

type vpCallFields struct {
	xid, rpcvers, prog, vers, proc uint32
	credFlavor                    uint32
	cred                          []byte
	verfFlavor                    uint32
	verf                          []byte
}

func vpEncodeCall(c *vpCallFields) []byte {
	var b vpBuf
	b.u32(c.xid).u32(RPC_CALL).u32(c.rpcvers).u32(c.prog).u32(c.vers).u32(c.proc)
	b.u32(c.credFlavor).opaque(c.cred)
	b.u32(c.verfFlavor).opaque(c.verf)
	return b.Bytes()
}

func VPH_C13_rpccall() {
	c := &vpCallFields{xid: vpU32("xid"), rpcvers: vpU32("rpcvers"), prog: vpU32("prog"), vers: vpU32("vers"), proc: vpU32("proc"),
		credFlavor: vpU32("cf"), verfFlavor: vpU32("vf")}
	c.cred = vpBytes("cred", vpChoose("credlen", 0, 9))
	c.verf = vpBytes("verf", vpChoose("verflen", 0, 5))
	sentinel := vpU32("sentinel")
	enc := vpEncodeCall(c)
	var b vpBuf
	b.raw(enc).u32(sentinel)
	r := bytes.NewReader(b.Bytes())
	call, err := DecodeRPCCall(r)
	vpAssert(err == nil, "decodes")
	h := call.Header
	vpAssert(vpAnd(vpAnd(h.Xid == c.xid, h.RPCVersion == c.rpcvers), vpAnd(h.Program == c.prog, vpAnd(h.Version == c.vers, h.Procedure == c.proc))), "header-fields")
	vpAssert(h.MsgType == RPC_CALL, "msgtype")
	vpAssert(call.Credential.Flavor == c.credFlavor, "cred-flavor")
	vpAssert(bytes.Equal(call.Credential.Body, c.cred), "cred-body")
	vpAssert(call.Verifier.Flavor == c.verfFlavor, "verf-flavor")
	vpAssert(bytes.Equal(call.Verifier.Body, c.verf), "verf-body")
	after, err := xdrDecodeUint32(r)
	vpAssert(err == nil, "sentinel-ok")
	vpAssert(after == sentinel, "consumed-padded-length")
	// a reply message type is not a call
	enc2 := append([]byte(nil), enc...)
	mt := vpU32("msgtype")
	vpAssume(mt != RPC_CALL)
	enc2[4], enc2[5], enc2[6], enc2[7] = byte(mt>>24), byte(mt>>16), byte(mt>>8), byte(mt)
	_, err = DecodeRPCCall(bytes.NewReader(enc2))
	vpAssert(err != nil, "non-call-rejected")
}

func VPH_C13_rpccall_limits() {
	which := vpChoose("case", 0, 4)
	hdr := func() *vpBuf {
		var b vpBuf
		b.u32(1).u32(RPC_CALL).u32(2).u32(NFS_PROGRAM).u32(3).u32(0)
		return &b
	}
	switch which {
	case 0:
		l := vpU32("credlen")
		vpAssume(l > MAX_RPC_AUTH_LENGTH)
		b := hdr()
		b.u32(AUTH_SYS).u32(l).raw(vpBytes("tail", 8))
		var err error
		vpAllocGuard(MAX_RPC_AUTH_LENGTH, func() { _, err = DecodeRPCCall(bytes.NewReader(b.Bytes())) })
		vpAssert(err != nil, "cred-over-limit-rejected")
		vpReach("cred-over-limit")
	case 1:
		l := vpU32("verflen")
		vpAssume(l > MAX_RPC_AUTH_LENGTH)
		b := hdr()
		b.u32(AUTH_NONE).u32(0).u32(AUTH_NONE).u32(l).raw(vpBytes("tail", 8))
		var err error
		vpAllocGuard(MAX_RPC_AUTH_LENGTH, func() { _, err = DecodeRPCCall(bytes.NewReader(b.Bytes())) })
		vpAssert(err != nil, "verf-over-limit-rejected")
		vpReach("verf-over-limit")
	case 2, 3, 4:
		n := MAX_RPC_AUTH_LENGTH - 3 + which // 399, 400, 401
		b := hdr()
		body := vpFiller(n)
		body[n-1] = vpU8("last")
		b.u32(AUTH_SYS).opaque(body).u32(AUTH_NONE).u32(0)
		call, err := DecodeRPCCall(bytes.NewReader(b.Bytes()))
		if n <= MAX_RPC_AUTH_LENGTH {
			vpAssert(err == nil, "cred-at-limit-accepted")
			vpAssert(len(call.Credential.Body) == n, "cred-at-limit-length")
			vpAssert(call.Credential.Body[n-1] == body[n-1], "cred-at-limit-content")
			vpReach("cred-at-limit")
		} else {
			vpAssert(err != nil, "cred-limit-plus-one-rejected")
			vpReach("cred-limit-plus-one")
		}
	}
}

// VPH_C13_truncated: a call header cut at every length is an error, never a panic,
// and whatever decodes agrees with an independent reading of the bytes.
func VPH_C13_truncated() {
	N := 44
	if vpTier() == 1 {
		N = 52
	}
	n := vpChoose("n", 0, N)
	if n%4 != 0 {
		vpAssume(n < 12) // unaligned cuts behave like the aligned cut below them beyond the first words
	}
	data := vpBytes("data", n)
	call, err := DecodeRPCCall(bytes.NewReader(data))
	rd := &vpRd{b: data}
	xid := rd.u32()
	mt := rd.u32()
	if err == nil {
		vpReach("decoded")
		vpAssert(n >= 40, "needs-ten-words")
		vpAssert(call.Header.Xid == xid, "xid")
		vpAssert(mt == RPC_CALL, "is-call")
	} else {
		vpReach("rejected")
	}
	if n < 40 {
		vpAssert(err != nil, "short-header-rejected")
	}
}

func VPH_C13_authsys() {
	G := 4
	if vpTier() == 1 {
		G = 16
	}
	which := vpChoose("case", 0, 2)
	stamp, uid, gid := vpU32("stamp"), vpU32("uid"), vpU32("gid")
	machine := vpBytes("machine", vpChoose("mlen", 0, 5))
	if which == 0 {
		naux := vpChoose("naux", 0, G)
		aux := make([]uint32, naux)
		for i := range aux {
			aux[i] = vpU32("aux")
		}
		body := vpAuthSysBody(stamp, string(machine), uid, gid, aux)
		c, err := ParseAuthSysCredential(body)
		vpAssert(err == nil, "parses")
		vpAssert(vpAnd(c.Stamp == stamp, vpAnd(c.UID == uid, c.GID == gid)), "fields")
		vpAssert(c.MachineName == string(machine), "machine")
		vpAssert(len(c.AuxGIDs) == naux, "aux-len")
		for i := 0; i < naux && i < len(c.AuxGIDs); i++ {
			vpAssert(c.AuxGIDs[i] == aux[i], "aux")
		}
		vpReach("roundtrip")
	} else if which == 2 {
		// 17 or more auxiliary gids that are really there (the body is long enough): still refused
		naux := vpChoose("naux-over", 17, 20)
		aux := make([]uint32, naux)
		for i := range aux {
			aux[i] = vpU32("aux")
		}
		_, err := ParseAuthSysCredential(vpAuthSysBody(stamp, string(machine), uid, gid, aux))
		vpAssert(err != nil, "more-than-16-gids-present-rejected")
		vpReach("too-many-gids-present")
	} else {
		// more than 16 auxiliary gids: refused before the list is allocated
		cnt := vpU32("cnt")
		vpAssume(cnt > 16)
		var b vpBuf
		b.u32(stamp).str(string(machine)).u32(uid).u32(gid).u32(cnt).raw(vpBytes("tail", 8))
		var err error
		vpAllocGuard(16*4, func() { _, err = ParseAuthSysCredential(b.Bytes()) })
		vpAssert(err != nil, "too-many-gids-rejected")
		vpReach("too-many-gids")
	}
}

// VPH_C13_record_read: any fragmentation of a record reassembles to the original bytes.
func VPH_C13_record_read() {
	R, F := 8, 3
	if vpTier() == 1 {
		R, F = 16, 4
	}
	n := vpChoose("n", 0, R)
	data := vpBytes("data", n)
	nf := vpChoose("frags", 1, F)
	var stream vpBuf
	pos := 0
	for f := 0; f < nf; f++ {
		var l int
		if f == nf-1 {
			l = n - pos
		} else {
			l = vpChoose("cut", 0, n-pos)
		}
		h := uint32(l)
		if f == nf-1 {
			h |= LastFragmentFlag
		}
		stream.u32(h).raw(data[pos : pos+l])
		pos += l
	}
	next := vpU32("next")
	stream.u32(next)
	// the transport hands the bytes over in pieces of its own choosing (an io.Reader may return
	// fewer bytes than asked for): all at once, or at most 1, 3 (thorough: 1, 2, 3, 5) per Read
	chunks := []int{0, 1, 3}
	if vpTier() == 1 {
		chunks = []int{0, 1, 2, 3, 5}
	}
	src := &vpChunkReader{b: stream.Bytes(), chunk: chunks[vpChoose("bytes-per-read", 0, len(chunks)-1)]}
	if src.chunk > 0 {
		vpReach("short-reads")
	}
	rm := NewRecordMarkingReader(src)
	got, err := rm.ReadRecord()
	vpAssert(err == nil, "read-ok")
	vpAssert(len(got) == n, "length")
	vpAssert(bytes.Equal(got, data), "reassembled")
	vpAssert(len(src.b)-src.pos == 4, "stream-position")
	vpObserve("n", n)
	vpObserve("frags", nf)
}

// vpChunkReader: an io.Reader that returns at most chunk bytes per Read (0 = as many as fit).
type vpChunkReader struct {
	b     []byte
	pos   int
	chunk int
}

func (r *vpChunkReader) Read(p []byte) (int, error) {
	if len(p) == 0 {
		return 0, nil
	}
	if r.pos >= len(r.b) {
		return 0, io.EOF
	}
	n := len(r.b) - r.pos
	if n > len(p) {
		n = len(p)
	}
	if r.chunk > 0 && n > r.chunk {
		n = r.chunk
	}
	copy(p, r.b[r.pos:r.pos+n])
	r.pos += n
	return n, nil
}

// VPH_C13_record_write: writer (any maximum fragment size) then reader is the identity.
func VPH_C13_record_write() {
	R := 8
	if vpTier() == 1 {
		R = 16
	}
	n := vpChoose("n", 0, R)
	m := vpChoose("maxfrag", 1, 4)
	data := vpBytes("data", n)
	var wire bytes.Buffer
	w := NewRecordMarkingWriterWithSize(&wire, m)
	vpAssert(w.WriteRecord(data) == nil, "write-ok")
	// fragment structure: every fragment at most m bytes, only the final one flagged last
	frags := (n + m - 1) / m
	if n == 0 {
		frags = 1
	}
	vpAssert(wire.Len() == n+4*frags, "wire-size")
	got, err := NewRecordMarkingReader(bytes.NewReader(wire.Bytes())).ReadRecord()
	vpAssert(err == nil, "read-ok")
	vpAssert(bytes.Equal(got, data), "identity")
}

// VPH_C13_record_limit: a fragment that would take the record past the limit is refused
// before a buffer of that size is allocated.
func VPH_C13_record_limit() {
	pre := vpChoose("pre", 0, 4)
	l := vpU32("len") &^ LastFragmentFlag
	last := vpBool("last")
	vpAssume(uint64(l)+uint64(pre) > DefaultMaxRecordSize)
	var s vpBuf
	if pre > 0 {
		s.u32(uint32(pre)).raw(vpBytes("pre", pre))
	}
	h := l | vpIteU32(last, LastFragmentFlag, 0)
	s.u32(h).raw(vpBytes("tail", 8))
	rm := NewRecordMarkingReader(bytes.NewReader(s.Bytes()))
	var err error
	vpAllocGuard(DefaultMaxRecordSize, func() { _, err = rm.ReadRecord() })
	vpAssert(err != nil, "over-limit-record-rejected")
}

// VPH_C13_record_limit_total: the record limit applies to the reassembled record, not to each
// fragment: with a small limit M and up to three fragments whose bytes are all present, the record
// is returned exactly when the total fits and refused when it does not (no record longer than M is
// ever handed out).
func VPH_C13_record_limit_total() {
	M := vpChoose("limit", 1, 5)
	nf := vpChoose("frags", 1, 3)
	var stream vpBuf
	var all []byte
	for f := 0; f < nf; f++ {
		l := vpChoose("fraglen", 0, M)
		d := vpBytes("frag", l)
		h := uint32(l)
		if f == nf-1 {
			h |= LastFragmentFlag
		}
		stream.u32(h).raw(d)
		all = append(all, d...)
	}
	rm := NewRecordMarkingReader(bytes.NewReader(stream.Bytes()))
	rm.MaxRecordSize = M
	got, err := rm.ReadRecord()
	if len(all) <= M {
		vpReach("total-within-limit")
		vpAssert(err == nil, "record-within-limit-accepted")
		vpAssert(bytes.Equal(got, all), "record-within-limit-reassembled")
	} else {
		vpReach("total-over-limit")
		vpAssert(err != nil, "record-over-limit-in-small-fragments-rejected")
	}
	if err == nil {
		vpAssert(len(got) <= M, "no-record-longer-than-the-limit")
	}
}

// VPH_C13_record_write_sizes: the default writer then the reader is the identity for a record of
// every length from 0 to 1100 bytes (fixed content), two records in a row: nothing about a
// particular length (a buffer size, a power of two) loses or adds bytes.
func VPH_C13_record_write_sizes() {
	n := 550*vpChoose("n-upper-half", 0, 1) + vpChoose("n", 0, 550)
	data := make([]byte, n)
	for i := range data {
		data[i] = byte(i*13 + 5)
	}
	var wire bytes.Buffer
	w := NewRecordMarkingWriter(&wire)
	vpAssert(w.WriteRecord(data) == nil, "write-ok")
	vpAssert(w.WriteRecord([]byte{9, 8, 7}) == nil, "second-write-ok")
	vpAssert(wire.Len() == n+4+7, "wire-size")
	r := NewRecordMarkingReader(bytes.NewReader(wire.Bytes()))
	got, err := r.ReadRecord()
	vpAssert(err == nil, "read-ok")
	vpAssert(bytes.Equal(got, data), "identity")
	got2, err2 := r.ReadRecord()
	vpAssert(vpAnd(err2 == nil, bytes.Equal(got2, []byte{9, 8, 7})), "next-record-intact")
}
