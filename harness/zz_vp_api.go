package absnfs

// Harness API. In the symbolic engine every vp* function below is intercepted
// by name and never executes its body; compiled natively (replay) the bodies
// read the solver's model from a tape file so the same harness runs against
// the real build.

import (
	"context"
	"encoding/json"
	"fmt"
	"math"
	"os"
	"strings"
	"time"
)

type vpTapeT struct {
	Vals  map[string]uint64 `json:"vals"`
	Tier  int               `json:"tier"`
	count map[string]int
}

var vpTape *vpTapeT
var vpFailed []string
var vpObserved []string
var vpReached []string
var vpClock int64 = 1_000_000_000
var vpHarnesses = map[string]func(){}

type vpAssumeFailed struct{ what string }

func vpRegister(name string, f func()) { vpHarnesses[name] = f }

func vpLoadTape() {
	vpTape = &vpTapeT{Vals: map[string]uint64{}, count: map[string]int{}}
	if p := os.Getenv("VP_TAPE"); p != "" {
		b, err := os.ReadFile(p)
		if err != nil {
			panic(err)
		}
		if err := json.Unmarshal(b, vpTape); err != nil {
			panic(err)
		}
		vpTape.count = map[string]int{}
	}
	vpFailed, vpObserved, vpReached = nil, nil, nil
	vpActiveKnown, vpKnownFails = nil, nil
	vpClock = 1_000_000_000
	vpAuto = false
}

func vpSan(s string) string {
	var sb strings.Builder
	for _, r := range s {
		if (r >= 'a' && r <= 'z') || (r >= 'A' && r <= 'Z') || (r >= '0' && r <= '9') || r == '_' || r == '.' {
			sb.WriteRune(r)
		} else {
			sb.WriteByte('_')
		}
	}
	if sb.Len() == 0 {
		return "v"
	}
	return sb.String()
}

func vpDraw(name string) uint64 {
	if vpTape == nil {
		vpLoadTape()
	}
	n := vpTape.count[name]
	vpTape.count[name] = n + 1
	return vpTape.Vals[fmt.Sprintf("%s!%d", vpSan(name), n)]
}

func vpU8(name string) uint8   { return uint8(vpDraw(name)) }
func vpU16(name string) uint16 { return uint16(vpDraw(name)) }
func vpU32(name string) uint32 { return uint32(vpDraw(name)) }
func vpU64(name string) uint64 { return vpDraw(name) }
func vpI32(name string) int32  { return int32(vpDraw(name)) }
func vpI64(name string) int64  { return int64(vpDraw(name)) }
func vpInt(name string) int    { return int(vpDraw(name)) }
func vpBool(name string) bool  { return uint8(vpDraw(name)) != 0 }

func vpBytes(name string, n int) []byte {
	out := make([]byte, n)
	for i := range out {
		out[i] = byte(vpDraw(name))
	}
	return out
}

func vpStr(name string, n int) string { return string(vpBytes(name, n)) }

func vpChoose(name string, lo, hi int) int {
	v := int(vpDraw(name))
	if v < lo || v > hi {
		panic(vpAssumeFailed{"vpChoose " + name})
	}
	return v
}

func vpAssume(c bool) {
	if !c {
		panic(vpAssumeFailed{"vpAssume"})
	}
}

func vpAssert(c bool, id string) {
	if !c {
		if len(vpActiveKnown) > 0 {
			// inside a listed known-finding region: record and go on, as the engine does
			vpKnownFails = append(vpKnownFails, id)
			return
		}
		vpFailed = append(vpFailed, id)
		panic(vpAssertFailed{id})
	}
}

var vpActiveKnown []string
var vpKnownFails []string
var vpListedKnown map[string]bool

type vpAssertFailed struct{ id string }

func vpReach(label string) { vpReached = append(vpReached, label) }

func vpObserve(name string, v any) {
	switch x := v.(type) {
	case string:
		vpObserved = append(vpObserved, fmt.Sprintf("%s=%q", name, x))
	case []byte:
		vpObserved = append(vpObserved, fmt.Sprintf("%s=%v", name, x))
	default:
		vpObserved = append(vpObserved, fmt.Sprintf("%s=%v", name, x))
	}
}

func vpKnown(id string, c bool) {
	if vpListedKnown == nil {
		vpListedKnown = map[string]bool{}
		for _, k := range strings.Split(os.Getenv("VP_KNOWN"), ",") {
			if k != "" {
				vpListedKnown[k] = true
			}
		}
	}
	if c && vpListedKnown[id] {
		vpActiveKnown = append(vpActiveKnown, id)
	}
}
func vpKnownClear() { vpActiveKnown = nil }

func vpAnd(a, b bool) bool     { return a && b }
func vpOr(a, b bool) bool      { return a || b }
func vpNot(a bool) bool        { return !a }
func vpImplies(a, b bool) bool { return !a || b }

func vpIteU64(c bool, a, b uint64) uint64 {
	if c {
		return a
	}
	return b
}
func vpIteU32(c bool, a, b uint32) uint32 {
	if c {
		return a
	}
	return b
}
func vpIteU8(c bool, a, b uint8) uint8 {
	if c {
		return a
	}
	return b
}
func vpIteI64(c bool, a, b int64) int64 {
	if c {
		return a
	}
	return b
}
func vpIteInt(c bool, a, b int) int {
	if c {
		return a
	}
	return b
}
func vpIteBool(c bool, a, b bool) bool {
	if c {
		return a
	}
	return b
}

func vpTier() int {
	if vpTape == nil {
		vpLoadTape()
	}
	return vpTape.Tier
}
func vpSymbolic() bool          { return false }
func vpSetClock(ns int64)       { vpClock = ns; vpAuto = false }
func vpClockAuto()              { vpAuto = true }

var vpAuto bool
var vpBase = time.Unix(1_700_000_000, 0)

// vpNow is what time.Now() is redirected to in the native replay build; in the
// engine time.now() itself is the virtual clock.
func vpNow() time.Time {
	if vpAuto {
		vpClock = int64(vpDraw("clk"))
	}
	return vpBase.Add(time.Duration(vpClock))
}

func vpSince(t time.Time) time.Duration { return vpNow().Sub(t) }
func vpNote(s string)           {}
func vpConcreteInt(v int) int   { return v }
func vpConcreteU64(v uint64) uint64 { return v }

// vpTimeInt draws an abstract instant in nanoseconds (0 <= t < 2^61).
func vpTimeInt(name string) int64 { return int64(vpDraw(name)) }

// vpF64 draws a float64 (tape carries its IEEE bits).
func vpF64(name string) float64 { return math.Float64frombits(vpDraw(name)) }

// ---- address tokens (C09). Natively these are the textual forms net.ParseIP/ParseCIDR
// really parse; in the engine they are opaque tokens whose parse result is the given bytes.

func vpHex16(b []byte) string {
	s := ""
	for i := 0; i < 16; i += 2 {
		if i > 0 {
			s += ":"
		}
		s += fmt.Sprintf("%x", uint16(b[i])<<8|uint16(b[i+1]))
	}
	return s
}

func vpIPToken(name string, ip16 []byte) string { return vpHex16(ip16) }

func vpBadToken(name string, cidr bool) string {
	if cidr {
		return "not-an-address-" + name + "/33x"
	}
	return "not-an-address-" + name
}

// vpCIDRToken: ip is what ParseCIDR returns as address, netIP/mask the IPNet fields; natively only the text matters.
func vpCIDRToken(name string, ip, netIP, mask []byte, text string) string { return text }

// vpStubIP tells the engine what net.ParseIP returns for a concrete text (natively the real parser runs).
func vpStubIP(text string, ip16 []byte) {}

func vpU16raw(name string) uint16 { return uint16(vpDraw(name)) }

// ---- request timeouts as symbolic inputs. The code under test makes its per-request contexts with
// context.WithTimeout; the engine (and, textually, the native replay build) sends those calls to
// vpWithTimeout. With vpTimeoutsOn false (every harness but the ones about timeouts) the context
// never expires, as before. With it true, every look at the context (Done, Err) may find that the
// deadline has just passed - a forking symbolic choice, recorded on the tape, so the native replay
// expires the same context at the same look. Once expired a context stays expired.
var vpTimeoutsOn bool

type vpCtx struct {
	context.Context
	done    chan struct{}
	expired bool
}

func (c *vpCtx) maybeExpire() {
	if !c.expired && vpBool("deadline-passes") {
		c.expired = true
		close(c.done)
	}
}
func (c *vpCtx) Done() <-chan struct{} { c.maybeExpire(); return c.done }
func (c *vpCtx) Err() error {
	c.maybeExpire()
	if c.expired {
		return context.DeadlineExceeded
	}
	return nil
}
func (c *vpCtx) Deadline() (time.Time, bool) { return time.Time{}, false }

func vpWithTimeout(parent context.Context, d time.Duration) (context.Context, context.CancelFunc) {
	if !vpTimeoutsOn {
		return vpPlainTimeout(parent, d)
	}
	return &vpCtx{Context: parent, done: make(chan struct{})}, func() {}
}

// vpPlainTimeout: natively the real thing; in the engine the parent itself (never expires).
func vpPlainTimeout(parent context.Context, d time.Duration) (context.Context, context.CancelFunc) {
	return context.WithTimeout(parent, d)
}
