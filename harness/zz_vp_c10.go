package absnfs

// C10 — identity squashing maps every credential as configured.

func init() {
	vpRegister("VPH_C10_squash", VPH_C10_squash)
	vpRegister("VPH_C10_body", VPH_C10_body)
	vpRegister("VPH_C10_connection", VPH_C10_connection)
	vpRegister("VPH_C10_after_update", VPH_C10_after_update)
}

// vpCaseWord returns w with the case of every letter chosen symbolically.
func vpCaseWord(w string) string {
	b := make([]byte, len(w))
	for i := 0; i < len(w); i++ {
		b[i] = w[i] ^ (vpU8("case") & 0x20)
	}
	return string(b)
}

func vpAuthSysBody(stamp uint32, machine string, uid, gid uint32, aux []uint32) []byte {
	var b vpBuf
	b.u32(stamp).str(machine).u32(uid).u32(gid).u32(uint32(len(aux)))
	for _, g := range aux {
		b.u32(g)
	}
	return b.Bytes()
}

func VPH_C10_squash() {
	G := 4
	if vpTier() == 1 {
		G = 8 // 16 (the protocol limit) did not finish in three hours: root squash forks on every gid == 0 test
	}
	uid, gid := vpU32("uid"), vpU32("gid")
	naux := vpChoose("naux", 0, G)
	aux := make([]uint32, naux)
	for i := range aux {
		aux[i] = vpU32("aux")
	}
	orig := append([]uint32(nil), aux...)

	which := vpChoose("mode", 0, 4)
	var mode string
	switch which {
	case 0:
		mode = vpCaseWord("root")
		vpReach("mode-root")
	case 1:
		mode = vpCaseWord("all")
		vpReach("mode-all")
	case 2:
		mode = vpCaseWord("none")
		vpReach("mode-none")
	case 3:
		mode = ""
		vpReach("mode-empty")
	default:
		// an arbitrary ASCII string that is none of the recognised words in any case
		n := vpChoose("ulen", 1, 4)
		s := vpBytes("umode", n)
		low := make([]byte, n)
		for i := range s {
			vpAssume(s[i] < 0x80)
			isUp := vpAnd(s[i] >= 'A', s[i] <= 'Z')
			low[i] = s[i] | vpIteU8(isUp, 0x20, 0)
		}
		ls := string(low)
		vpAssume(ls != "root")
		vpAssume(ls != "all")
		vpAssume(ls != "none")
		mode = string(s)
		vpReach("mode-unrecognised")
	}

	flavorSel := vpChoose("flavor", 0, 2)
	var flavor uint32
	switch flavorSel {
	case 0:
		flavor = AUTH_NONE
	case 1:
		flavor = AUTH_SYS
	default:
		flavor = vpU32("otherflavor")
		vpAssume(flavor != AUTH_NONE)
		vpAssume(flavor != AUTH_SYS)
	}

	// either the server parses the body itself, or the caller hands over a parsed credential
	preParsed := vpBool("preparsed")
	ctx := &AuthContext{ClientIP: "10.0.0.1", ClientPort: 900, Credential: &RPCCredential{Flavor: flavor}}
	if preParsed {
		ctx.AuthSys = &AuthSysCredential{UID: uid, GID: gid, AuxGIDs: aux}
	} else {
		ctx.Credential.Body = vpAuthSysBody(vpU32("stamp"), vpStr("machine", vpChoose("mlen", 0, 2)), uid, gid, aux)
	}
	policy := &PolicyOptions{Squash: mode}
	res := ValidateAuthentication(ctx, policy)

	switch flavorSel {
	case 0:
		vpReach("auth-none")
		vpAssert(res.Allowed, "authnone-allowed")
		vpAssert(vpAnd(res.UID == 65534, res.GID == 65534), "authnone-nobody")
		return
	case 2:
		vpReach("auth-other")
		vpAssert(!res.Allowed, "other-flavor-denied")
		return
	}
	vpReach("auth-sys")
	vpAssert(res.Allowed, "authsys-allowed")
	vpObserve("uid", res.UID)
	vpObserve("gid", res.GID)
	vpAssert(ctx.AuthSys != nil, "authsys-parsed")
	got := ctx.AuthSys.AuxGIDs
	switch which {
	case 0: // root
		wantUID := vpIteU32(uid == 0, 65534, uid)
		wantGID := vpIteU32(vpOr(uid == 0, gid == 0), 65534, gid)
		vpAssert(res.UID == wantUID, "root-uid")
		vpAssert(res.GID == wantGID, "root-gid")
		vpAssert(len(got) == naux, "root-aux-len")
		for i := 0; i < naux && i < len(got); i++ {
			vpAssert(got[i] == vpIteU32(orig[i] == 0, 65534, orig[i]), "root-aux")
		}
	case 1: // all
		vpAssert(vpAnd(res.UID == 65534, res.GID == 65534), "all-ids")
		vpAssert(len(got) == naux, "all-aux-len")
		for i := 0; i < naux && i < len(got); i++ {
			vpAssert(got[i] == 65534, "all-aux")
		}
	case 2, 3: // none, ""
		vpAssert(vpAnd(res.UID == uid, res.GID == gid), "none-ids")
		vpAssert(len(got) == naux, "none-aux-len")
		for i := 0; i < naux && i < len(got); i++ {
			vpAssert(got[i] == orig[i], "none-aux")
		}
	default:
		vpAssert(vpAnd(res.UID == 65534, res.GID == 65534), "unrecognised-ids")
	}
	// the caller's auxiliary array is never written
	if preParsed {
		for i := 0; i < naux; i++ {
			vpAssert(aux[i] == orig[i], "caller-aux-untouched")
		}
	}
}

// VPH_C10_body: arbitrary AUTH_SYS body bytes are either decoded exactly as the
// RFC 1831 authsys_parms grammar says, or the call is denied.
func VPH_C10_body() {
	B := 32
	if vpTier() == 1 {
		B = 48
	}
	n := vpChoose("len", 0, B)
	if n%4 != 0 && n > 24 {
		// lengths that are not a multiple of four add nothing beyond the shorter ones
		vpAssume(false)
	}
	body := vpBytes("body", n)
	ctx := &AuthContext{ClientIP: "10.0.0.1", ClientPort: 900, Credential: &RPCCredential{Flavor: AUTH_SYS, Body: body}}
	res := ValidateAuthentication(ctx, &PolicyOptions{Squash: "none"})

	// reference decoder
	rd := &vpRd{b: body}
	rd.u32() // stamp
	mlen := rd.u32()
	okRef := !rd.bad
	var uid, gid, cnt uint32
	if okRef {
		if mlen > uint32(len(body)) {
			// cannot fit (RFC 1831 caps machinename at 255, far above the body bound)
			okRef = false
		} else {
			ml := int(vpConcreteU64(uint64(mlen)))
			rd.pos += (ml + 3) &^ 3
			if rd.pos > len(body) {
				okRef = false
			}
		}
	}
	if okRef {
		uid, gid, cnt = rd.u32(), rd.u32(), rd.u32()
		okRef = !rd.bad
	}
	if okRef {
		if cnt > 16 {
			okRef = false
		} else {
			c := int(vpConcreteU64(uint64(cnt)))
			if rd.pos+4*c > len(body) {
				okRef = false
			}
		}
	}
	if okRef {
		vpReach("body-decodes")
		vpAssert(res.Allowed, "decodable-body-allowed")
		vpAssert(vpAnd(res.UID == uid, res.GID == gid), "decoded-ids")
	} else {
		vpReach("body-undecodable")
		vpAssert(!res.Allowed, "undecodable-body-denied")
	}
}

// VPH_C10_connection: two AUTH_SYS calls with different credentials on ONE record-marking
// connection, through the real connection loop: each call is judged under its own credential (the
// second caller does not inherit the first one's identity). Observed through what the backend is
// told: each MKDIR chowns the new directory to that call's effective uid and gid (squash "none").
func VPH_C10_connection() {
	fs := vpStdTree()
	fs.addAbsent("/d/n1")
	fs.addAbsent("/d/n2")
	env := vpServer(fs, ExportOptions{Squash: "none"})
	hd := env.handleFor("/d")
	env.srv.options.UseRecordMarking = true
	uid := []uint32{vpU32("uid1"), vpU32("uid2")}
	gid := []uint32{vpU32("gid1"), vpU32("gid2")}
	var in []byte
	for k := 0; k < 2; k++ {
		var b vpBuf
		b.u32(uint32(100+k)).u32(RPC_CALL).u32(2).u32(NFS_PROGRAM).u32(NFS_V3).u32(NFSPROC3_MKDIR)
		b.u32(AUTH_SYS).opaque(vpAuthSysBody(7, "h", uid[k], gid[k], nil)).u32(AUTH_NONE).u32(0)
		b.fh(hd).str([]string{"n1", "n2"}[k]).sattr(&vpSattr{})
		in = append(in, vpFrame(b.Bytes())...)
	}
	conn := &vpConn{in: in, remote: "10.0.0.5:800"}
	env.fs.log = nil
	env.srv.handleConnectionWithRecordMarking(conn, env.h)
	replies, ok := vpSplitRecords(conn.out)
	vpAssert(vpAnd(ok, len(replies) == 2), "both-calls-answered")
	for k, p := range []string{"/d/n1", "/d/n2"} {
		seen := false
		for _, c := range env.fs.log {
			if (c.op == "Chown" || c.op == "Lchown") && c.path == p {
				seen = true
				vpAssert(vpAnd(uint32(c.a) == uid[k], uint32(c.b) == gid[k]), "each-call-runs-under-its-own-credential")
			}
		}
		if fs.lookup(p) != nil {
			vpReach("mkdir-done")
			vpAssert(seen, "new-directory-given-the-callers-identity")
		}
	}
}

// VPH_C10_after_update: the squash mode chosen at construction still governs after the options
// were updated at run time in any of the accepted ways (the mode itself cannot be changed): one
// AUTH_SYS MKDIR through the real connection loop, observed through the identity the backend is told.
func VPH_C10_after_update() {
	fs := vpStdTree()
	fs.addAbsent("/d/n1")
	all := vpBool("mode-all")
	mode := "root"
	if all {
		mode = "all"
	}
	env := vpServer(fs, ExportOptions{Squash: mode})
	hd := env.handleFor("/d")
	env.srv.options.UseRecordMarking = true
	var err error
	switch vpChoose("update", 0, 4) {
	case 1: // options written from scratch, the mode left out
		err = env.nfs.UpdateExportOptions(ExportOptions{AttrCacheSize: 50})
		vpReach("update-from-scratch")
	case 2: // read-modify-write of the snapshot
		o := env.nfs.GetExportOptions()
		o.AttrCacheSize = 50
		err = env.nfs.UpdateExportOptions(o)
		vpReach("update-of-snapshot")
	case 3: // the policy alone, copied from the one in force
		p := *env.nfs.policy.Load()
		p.MaxFileSize = 1 << 30
		err = env.nfs.UpdatePolicyOptions(p)
		vpReach("policy-update")
	case 4: // the mode restated
		err = env.nfs.UpdateExportOptions(ExportOptions{Squash: mode})
		vpReach("mode-restated")
	}
	vpAssert(err == nil, "update-accepted")
	uid, gid := vpU32("uid"), vpU32("gid")
	var b vpBuf
	b.u32(100).u32(RPC_CALL).u32(2).u32(NFS_PROGRAM).u32(NFS_V3).u32(NFSPROC3_MKDIR)
	b.u32(AUTH_SYS).opaque(vpAuthSysBody(7, "h", uid, gid, nil)).u32(AUTH_NONE).u32(0)
	b.fh(hd).str("n1").sattr(&vpSattr{})
	conn := &vpConn{in: vpFrame(b.Bytes()), remote: "10.0.0.5:800"}
	env.fs.log = nil
	env.srv.handleConnectionWithRecordMarking(conn, env.h)
	wantUID := vpIteU32(uid == 0, 65534, uid)
	wantGID := vpIteU32(vpOr(uid == 0, gid == 0), 65534, gid)
	if all {
		wantUID, wantGID = 65534, 65534
	}
	seen := false
	for _, c := range env.fs.log {
		if (c.op == "Chown" || c.op == "Lchown") && c.path == "/d/n1" {
			seen = true
			vpAssert(vpAnd(uint32(c.a) == wantUID, uint32(c.b) == wantGID), "mode-of-construction-still-governs")
		}
	}
	if fs.lookup("/d/n1") != nil {
		vpReach("mkdir-done")
		vpAssert(seen, "new-directory-given-the-squashed-identity")
	}
}
