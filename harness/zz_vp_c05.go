package absnfs

// C05 — handles live when issued, one per path, table bounded.
// C06 — a handle value never silently refers to a different object.

import (
	"bytes"
	"fmt"

	"github.com/absfs/absfs"
)

func init() {
	vpRegister("VPH_C05_step", VPH_C05_step)
	vpRegister("VPH_C05_run", VPH_C05_run)
	vpRegister("VPH_C05_handlers", VPH_C05_handlers)
	vpRegister("VPH_C05_overflow", VPH_C05_overflow)
	vpRegister("VPH_C05_mnt", VPH_C05_mnt)
	vpRegister("VPH_C06_step", VPH_C06_step)
	vpRegister("VPH_C06_releaseall", VPH_C06_releaseall)
	vpRegister("VPH_C06_stale", VPH_C06_stale)
	vpRegister("VPH_C06_requests", VPH_C06_requests)
}

type vpTable struct {
	fm     *FileHandleMap
	ids    []uint64
	nodes  []*NFSNode
	free   []uint64
	next   uint64
	max    int
	effMax int
	base   uint64 // ids in [base, next) are exactly the live and the free ones
}

var vpTablePaths = []string{"/p0", "/p1", "/p2"}

// vpArbitraryTable builds a handle table with n live entries whose ids are symbolic, a free
// heap of m symbolic ids, symbolic nextHandle and maxHandles, constrained only by the
// representation invariant the real code maintains: ids pairwise distinct, live and free
// disjoint, all below nextHandle, pathHandles the inverse of handles, the heap root is the
// minimum, and *density*: ids are handed out as nextHandle++ and every id that stops being
// live goes to the free heap, so the live and free ids together are exactly the window
// [base, nextHandle) (base moves up only when ReleaseAll forgets the free heap). Without
// density a pre-state could hold live ids 2^40 apart, which no history produces and on
// which the eviction scan `for h := minHandle; ...; h++` would run 2^40 times.
func vpArbitraryTable(maxN, maxM int) *vpTable {
	n := vpChoose("n", 0, maxN)
	m := vpChoose("m", 0, maxM)
	t := &vpTable{next: vpU64("next"), max: vpInt("maxhandles")}
	vpAssume(vpAnd(t.max > -(1<<30), t.max < 1<<30))
	t.effMax = vpIteInt(t.max <= 0, DefaultMaxHandles, t.max)
	vpAssume(n <= t.effMax) // the bound holds before the step
	vpAssume(vpAnd(t.next >= 1, t.next < 1<<62))
	vpAssume(t.next >= uint64(n+m)+1)
	t.base = t.next - uint64(n+m)
	fm := &FileHandleMap{handles: map[uint64]absfs.File{}, pathHandles: map[string]uint64{}, nextHandle: t.next, maxHandles: t.max}
	for i := 0; i < n; i++ {
		id := vpU64("id")
		vpAssume(vpAnd(id >= t.base, id < t.next))
		for _, o := range t.ids {
			vpAssume(id != o)
		}
		node := &NFSNode{path: vpTablePaths[i], attrs: &NFSAttrs{Mode: 0644, FileId: vpFnv64a(vpTablePaths[i])}}
		fm.handles[id] = node
		fm.pathHandles[node.path] = id
		t.ids = append(t.ids, id)
		t.nodes = append(t.nodes, node)
	}
	h := uint64MinHeap{}
	for j := 0; j < m; j++ {
		id := vpU64("free")
		vpAssume(vpAnd(id >= t.base, id < t.next))
		for _, o := range t.ids {
			vpAssume(id != o)
		}
		for _, o := range t.free {
			vpAssume(id != o)
		}
		if j > 0 {
			vpAssume(t.free[0] <= id) // heap order: the root is the minimum
		}
		t.free = append(t.free, id)
		h = append(h, id)
	}
	fm.freeHandles = &h
	t.fm = fm
	return t
}

// invariant checks the representation invariant after a step.
func (t *vpTable) invariant(tag string) {
	fm := t.fm
	// pathHandles is the inverse of handles on node entries
	cnt := 0
	for id, f := range fm.handles {
		node, ok := f.(*NFSNode)
		vpAssert(ok, tag+"-entries-are-nodes")
		back, found := fm.pathHandles[node.path]
		vpAssert(found, tag+"-path-index-complete")
		vpAssert(back == id, tag+"-path-index-inverse")
		vpAssert(vpAnd(id >= t.base, id < fm.nextHandle), tag+"-ids-below-next")
		cnt++
	}
	// density: live and free ids together fill [base, nextHandle)
	vpAssert(uint64(cnt+fm.freeHandles.Len()) == fm.nextHandle-t.base, tag+"-ids-dense")
	vpAssert(len(fm.pathHandles) == cnt, tag+"-path-index-no-extras")
	// free ids are not live and below next
	for _, fid := range *fm.freeHandles {
		_, live := fm.handles[fid]
		vpAssert(!live, tag+"-free-and-live-disjoint")
		vpAssert(vpAnd(fid >= t.base, fid < fm.nextHandle), tag+"-free-below-next")
	}
}

// VPH_C05_step: one Allocate (new path or already present path) or Release from an arbitrary table.
func VPH_C05_step() {
	t := vpArbitraryTable(3, 2)
	fm := t.fm
	n := len(t.ids)
	switch vpChoose("op", 0, 3) {
	case 3: // ReleaseAll (Unexport / Close), then serving continues
		vpReach("releaseall-then-allocate")
		fm.ReleaseAll()
		vpAssert(fm.Count() == 0, "releaseall-empties-the-table")
		a := &NFSNode{path: "/after1", attrs: &NFSAttrs{Mode: 0644}}
		b := &NFSNode{path: "/after2", attrs: &NFSAttrs{Mode: 0644}}
		ha := fm.Allocate(a)
		hb := fm.Allocate(b)
		vpAssert(ha != hb, "handles-issued-after-releaseall-are-distinct")
		fa, la := fm.Get(ha)
		fb, lb := fm.Get(hb)
		vpAssert(lb, "handle-issued-after-releaseall-is-live")
		vpAssert(fb == absfs.File(b), "handle-issued-after-releaseall-resolves-to-its-object")
		// the first of the two is still there unless the maximum is one (the second allocation then evicts it)
		if la {
			vpAssert(fa == absfs.File(a), "earlier-handle-after-releaseall-still-names-its-object")
		} else {
			vpAssert(t.effMax == 1, "earlier-handle-after-releaseall-evicted-only-at-maximum-one")
		}
		vpAssert(fm.Count() <= t.effMax, "count-within-maximum")
	case 0: // a path not in the table
		vpReach("allocate-new")
		node := &NFSNode{path: "/new", attrs: &NFSAttrs{Mode: 0644}}
		usedFree := len(t.free) > 0
		got := fm.Allocate(node)
		vpAssert(fm.Count() <= t.effMax, "count-within-maximum")
		if usedFree {
			vpKnown("K-C05-self-eviction", true)
		}
		f, live := fm.Get(got)
		vpAssert(live, "issued-handle-is-live")
		vpAssert(f == absfs.File(node), "issued-handle-resolves-to-its-object")
		vpKnownClear()
		t.invariant("ri")
	case 1: // a path already present: same handle, table otherwise unchanged
		if n == 0 {
			vpAssume(false)
		}
		vpReach("allocate-existing")
		k := vpChoose("which", 0, n-1)
		node := &NFSNode{path: vpTablePaths[k], attrs: &NFSAttrs{Mode: 0600}}
		got := fm.Allocate(node)
		vpAssert(got == t.ids[k], "same-path-same-handle")
		vpAssert(fm.Count() == n, "reissue-leaves-count")
		for i := 0; i < n; i++ {
			_, live := fm.Get(t.ids[i])
			vpAssert(live, "reissue-keeps-others-live")
		}
		t.invariant("ri")
	case 2:
		vpReach("release")
		h := vpU64("release")
		fm.Release(h)
		_, live := fm.Get(h)
		vpAssert(!live, "released-handle-not-live")
		vpAssert(fm.Count() <= n, "release-does-not-grow")
		t.invariant("ri")
	}
}

// VPH_C05_run: k operations from the empty table with small maxima.
func VPH_C05_run() {
	k := 4
	if vpTier() == 1 {
		k = 6
	}
	max := vpChoose("max", 1, 3)
	fm := &FileHandleMap{handles: map[uint64]absfs.File{}, pathHandles: map[string]uint64{}, nextHandle: 1, freeHandles: NewUint64MinHeap(), maxHandles: max}
	paths := []string{"/a", "/b", "/c", "/d"}
	var lastIssued []uint64
	for i := 0; i < k; i++ {
		if len(lastIssued) > 0 && vpBool("release") {
			fm.Release(lastIssued[vpChoose("rel", 0, len(lastIssued)-1)])
			continue
		}
		p := paths[vpChoose("path", 0, len(paths)-1)]
		_, had := fm.pathHandles[p]
		prev := fm.pathHandles[p]
		freeBefore := fm.freeHandles.Len()
		node := &NFSNode{path: p, attrs: &NFSAttrs{Mode: 0644}}
		got := fm.Allocate(node)
		if had {
			vpAssert(got == prev, "same-path-same-handle")
		}
		vpAssert(fm.Count() <= max, "count-within-maximum")
		if freeBefore > 0 && !had {
			vpKnown("K-C05-self-eviction", true)
		}
		f, live := fm.Get(got)
		vpAssert(live, "issued-handle-is-live")
		vpAssert(f == absfs.File(node), "issued-handle-resolves-to-its-object")
		vpKnownClear()
		lastIssued = append(lastIssued, got)
	}
}

// VPH_C05_handlers: the handle in a LOOKUP / CREATE / MKDIR / SYMLINK / MNT reply resolves in
// an immediately following GETATTR to the object it names, for small handle maxima.
func VPH_C05_handlers() {
	fs := vpStdTree()
	env := vpServer(fs, ExportOptions{})
	max := vpChoose("max", 1, 3)
	env.nfs.fileMap.maxHandles = max
	hd := env.handleFor("/d")
	if vpBool("prior-release") {
		// an earlier handle was released, so the free list is not empty
		he := env.handleFor("/e")
		env.nfs.fileMap.Release(he)
		if _, ok := env.nfs.fileMap.Get(hd); !ok {
			hd = env.handleFor("/d")
		}
	}
	if _, ok := env.nfs.fileMap.Get(hd); !ok {
		vpAssume(false)
	}
	freeBefore := env.nfs.fileMap.freeHandles.Len()
	var b vpBuf
	var proc uint32
	want := ""
	sel := vpChoose("proc", 0, 3)
	s := &vpSattr{}
	switch sel {
	case 0:
		proc, want = NFSPROC3_LOOKUP, "/d/x"
		b.fh(hd).str("x")
	case 1:
		proc, want = NFSPROC3_CREATE, "/d/new"
		b.fh(hd).str("new").u32(0).sattr(s)
	case 2:
		proc, want = NFSPROC3_MKDIR, "/d/new"
		b.fh(hd).str("new").sattr(s)
	case 3:
		proc, want = NFSPROC3_SYMLINK, "/d/new"
		b.fh(hd).str("new").sattr(s).str("x")
	}
	rd := &vpRd{b: vpReplyBytes(env.call(proc, b.Bytes()))}
	vpAssume(rd.u32() == NFS_OK)
	var issued uint64
	if proc == NFSPROC3_LOOKUP {
		fh := rd.opaque()
		vpAssert(len(fh) == 8, "handle-length")
		issued = (&vpRd{b: fh}).u64()
	} else {
		vpAssert(rd.u32() == 1, "handle-follows")
		fh := rd.opaque()
		vpAssert(len(fh) == 8, "handle-length")
		issued = (&vpRd{b: fh}).u64()
	}
	vpAssert(env.nfs.fileMap.Count() <= max, "count-within-maximum")
	var g vpBuf
	g.fh(issued)
	rg := &vpRd{b: vpReplyBytes(env.call(NFSPROC3_GETATTR, g.Bytes()))}
	st := rg.u32()
	if freeBefore > 0 {
		vpKnown("K-C05-self-eviction", true)
	}
	vpAssert(st == NFS_OK, "issued-handle-resolves")
	a := rg.fattr()
	vpAssert(a.fileid == vpFnv64a(want), "issued-handle-names-the-object")
}

// VPH_C05_overflow: maxima large enough for the eviction pass to remove several handles at once
// (maxHandles/10 >= 2), which the symbolic-table step cannot reach with three entries: the table is
// filled past its maximum twice over with distinct paths, with one release at a symbolic position (so
// that free-list ids of every rank are re-used while an eviction runs); after every Allocate the handle
// just issued is live and resolves to its node and the table is within its maximum.
func VPH_C05_overflow() {
	max := []int{19, 20, 30, 41}[vpChoose("max", 0, 3)]
	total := max + 2*(max/10) + 6
	fm := &FileHandleMap{handles: map[uint64]absfs.File{}, pathHandles: map[string]uint64{}, nextHandle: 1, freeHandles: NewUint64MinHeap(), maxHandles: max}
	relAt := vpChoose("release-at", 0, total) // == total: no release
	var issued []uint64
	for i := 0; i < total; i++ {
		if i == relAt && len(issued) > 0 {
			vpReach("overflow-release")
			fm.Release(issued[vpChoose("release-which", 0, 3)%len(issued)])
		}
		node := &NFSNode{path: fmt.Sprintf("/f%d", i), attrs: &NFSAttrs{Mode: 0644}}
		before := fm.Count()
		got := fm.Allocate(node)
		if before == max {
			vpReach("overflow-eviction")
		}
		vpAssert(fm.Count() <= max, "overflow-count-within-maximum")
		f, live := fm.Get(got)
		vpAssert(live, "overflow-issued-handle-is-live")
		vpAssert(f == absfs.File(node), "overflow-issued-handle-resolves-to-its-object")
		// a reissue for the same path while the handle is live gives the same value
		vpAssert(fm.Allocate(&NFSNode{path: node.path, attrs: &NFSAttrs{Mode: 0644}}) == got, "overflow-same-path-same-handle")
		issued = append(issued, got)
	}
}

// VPH_C05_mnt: MNT names a directory by path; however the client spells it, the handle for a
// directory that already has a live handle is that handle (one handle per object), it resolves, and
// the table does not grow.
func VPH_C05_mnt() {
	fs := vpStdTree()
	env := vpServer(fs, ExportOptions{})
	hd := env.handleFor("/d")
	spellings := []string{"/d", "/d/", "//d", "/d/.", "/e/../d", "/./d"}
	spelling := spellings[vpChoose("spelling", 0, 5)]
	// a real backend resolves all of these to the same directory (vpFS otherwise knows exact paths only)
	for _, sp := range spellings[1:] {
		fs.nodes[sp] = fs.nodes["/d"]
	}
	countBefore := env.nfs.fileMap.Count()
	var b vpBuf
	b.str(spelling)
	call := &RPCCall{Header: RPCMsgHeader{Xid: 9, MsgType: RPC_CALL, RPCVersion: 2, Program: MOUNT_PROGRAM, Version: 3, Procedure: 1},
		Credential: RPCCredential{Flavor: AUTH_NONE}}
	reply, err := env.h.HandleCall(call, bytes.NewReader(b.Bytes()), &AuthContext{ClientIP: "127.0.0.1", ClientPort: 700, Credential: &call.Credential})
	vpAssert(vpAnd(err == nil, reply != nil), "mnt-answered")
	rd := &vpRd{b: vpReplyBytes(reply)}
	if rd.u32() != 0 {
		vpReach("mnt-refused") // refusing an odd spelling is fine; issuing a second handle is not
		return
	}
	vpReach("mnt-ok")
	fh := rd.opaque()
	vpAssert(len(fh) == 8, "mnt-handle-length")
	got := (&vpRd{b: fh}).u64()
	vpAssert(got == hd, "mnt-same-object-same-handle")
	vpAssert(env.nfs.fileMap.Count() == countBefore, "mnt-reissue-does-not-grow-the-table")
	var g vpBuf
	g.fh(got)
	rg := &vpRd{b: vpReplyBytes(env.call(NFSPROC3_GETATTR, g.Bytes()))}
	vpAssert(rg.u32() == NFS_OK, "mnt-handle-resolves")
	vpAssert(rg.fattr().fileid == vpFnv64a("/d"), "mnt-handle-names-the-directory")
}

// VPH_C06_step: the same arbitrary table with a ghost record of the path each id was
// first issued for; after one Allocate every id is absent or still names that path.
func VPH_C06_step() {
	t := vpArbitraryTable(3, 2)
	fm := t.fm
	// optionally a Release of an arbitrary value first: a live handle, one already released or
	// evicted, or one never issued (a Release of something not tracked changes nothing)
	if vpBool("release-first") {
		vpReach("release-then-allocate")
		h := vpU64("released")
		_, wasLive := fm.Get(h)
		freeBefore := fm.freeHandles.Len()
		fm.Release(h)
		if !wasLive {
			vpAssert(fm.freeHandles.Len() == freeBefore, "release-of-untracked-value-changes-nothing")
			vpAssert(fm.Count() == len(t.ids), "release-of-untracked-value-keeps-the-table")
		}
		t.invariant("ri-after-release")
		// continue from the table as it is now
		var ids []uint64
		var paths []string
		for k, id := range t.ids {
			if id != h {
				ids = append(ids, id)
				paths = append(paths, vpTablePaths[k])
			}
		}
		if wasLive {
			t.free = append(t.free, h)
		}
		node := &NFSNode{path: "/new", attrs: &NFSAttrs{Mode: 0644}}
		got := fm.Allocate(node)
		for k, id := range ids {
			f, live := fm.Get(id)
			if live {
				nd, ok := f.(*NFSNode)
				vpAssert(vpAnd(ok, nd.path == paths[k]), "live-id-keeps-its-path")
			}
			vpAssert(got != id, "no-live-id-reissued")
		}
		t.invariant("ri")
		return
	}
	node := &NFSNode{path: "/new", attrs: &NFSAttrs{Mode: 0644}}
	usedFree := len(t.free) > 0
	got := fm.Allocate(node)
	// ids that were live keep naming their path or are gone
	for i, id := range t.ids {
		f, live := fm.Get(id)
		if live {
			nd, ok := f.(*NFSNode)
			vpAssert(vpAnd(ok, nd.path == vpTablePaths[i]), "live-id-keeps-its-path")
		}
	}
	// the id handed out must not be one that clients already hold for another object:
	// ids on the free list were issued earlier for some other path
	vpKnown("K-C06-freelist-reuse", usedFree)
	for _, fid := range t.free {
		vpAssert(got != fid, "no-previously-issued-id-reissued-for-another-path")
	}
	vpKnownClear()
	for _, id := range t.ids {
		vpAssert(got != id, "no-live-id-reissued")
	}
	// the table is again one from which the next step can be taken (in particular: no path-index
	// entry survives its handle, which a later Allocate of that path would re-bind to another object)
	t.invariant("ri")
	if !usedFree {
		vpReach("fresh-id")
		vpAssert(got == t.next, "fresh-ids-are-sequential")
		vpAssert(fm.nextHandle == t.next+1, "next-advances")
	} else {
		vpReach("reused-id")
	}
}

// VPH_C06_releaseall: after ReleaseAll (Unexport / re-export) no old id is ever handed out again.
func VPH_C06_releaseall() {
	t := vpArbitraryTable(3, 2)
	fm := t.fm
	fm.ReleaseAll()
	vpAssert(fm.Count() == 0, "releaseall-empties-table")
	for i := 0; i < 2; i++ {
		got := fm.Allocate(&NFSNode{path: vpTablePaths[i], attrs: &NFSAttrs{}})
		vpAssert(got >= t.next, "ids-after-releaseall-are-new")
		for _, id := range t.ids {
			vpAssert(got != id, "old-live-id-not-reissued")
		}
		for _, id := range t.free {
			vpAssert(got != id, "old-free-id-not-reissued")
		}
	}
}

// VPH_C06_stale: any handle value that is not live yields NFS3ERR_STALE; a live one its own object.
func VPH_C06_stale() {
	fs := vpStdTree()
	env := vpServer(fs, ExportOptions{})
	hd, hx := env.handleFor("/d"), env.handleFor("/d/x")
	if vpBool("released") {
		env.nfs.fileMap.Release(hx)
	}
	if vpBool("unexported") {
		env.nfs.Unexport()
	}
	q := vpU64("probe")
	sel := vpChoose("proc", 0, 3)
	proc := []uint32{NFSPROC3_GETATTR, NFSPROC3_READ, NFSPROC3_LOOKUP, NFSPROC3_READDIR}[sel]
	var b vpBuf
	switch proc {
	case NFSPROC3_GETATTR:
		b.fh(q)
	case NFSPROC3_READ:
		b.fh(q).u64(0).u32(4)
	case NFSPROC3_LOOKUP:
		b.fh(q).str("x")
	case NFSPROC3_READDIR:
		b.fh(q).u64(0).raw(make([]byte, 8)).u32(512)
	}
	f, live := env.nfs.fileMap.Get(q)
	rd := &vpRd{b: vpReplyBytes(env.call(proc, b.Bytes()))}
	st := rd.u32()
	if !live {
		vpReach("not-live")
		vpAssert(st == NFSERR_STALE, "untracked-handle-is-STALE")
	} else {
		vpReach("live")
		nd := f.(*NFSNode)
		vpAssert(vpOr(vpAnd(q == hd, nd.path == "/d"), vpAnd(q == hx, nd.path == "/d/x")), "live-handle-names-its-object")
		vpAssert(st != NFSERR_STALE, "live-handle-not-STALE")
	}
}

// VPH_C06_requests: through the real handlers, with no eviction and no explicit Release anywhere:
// a client looks up a, then a is removed, renamed away or left alone, then another client looks up
// b (a path that never had a handle). The value given out for a is not given out for b, and a later
// GETATTR with a's handle is answered with an error or with attributes of a's path - never b's.
func VPH_C06_requests() {
	fs := vpNewFS()
	fs.addDir("/d")
	fs.addFileData("/d/a", []byte("AAAA"))
	fs.addFileData("/d/b", []byte("BBBBBB"))
	fs.addAbsent("/d/c")
	env := vpServer(fs, ExportOptions{})
	hd := env.handleFor("/d")
	lookup := func(name string) uint64 {
		var b vpBuf
		rd := &vpRd{b: vpReplyBytes(env.call(NFSPROC3_LOOKUP, b.fh(hd).str(name).Bytes()))}
		vpAssert(rd.u32() == NFS_OK, "lookup-ok")
		return (&vpRd{b: rd.opaque()}).u64()
	}
	ha := lookup("a")
	var m vpBuf
	switch vpChoose("then", 0, 2) {
	case 1:
		rd := &vpRd{b: vpReplyBytes(env.call(NFSPROC3_REMOVE, m.fh(hd).str("a").Bytes()))}
		vpAssert(rd.u32() == NFS_OK, "removed")
		vpReach("removed")
	case 2:
		rd := &vpRd{b: vpReplyBytes(env.call(NFSPROC3_RENAME, m.fh(hd).str("a").fh(hd).str("c").Bytes()))}
		vpAssert(rd.u32() == NFS_OK, "renamed")
		vpReach("renamed")
	}
	hb := lookup("b")
	vpAssert(hb != ha, "value-given-out-for-one-path-not-given-out-for-another")
	var g vpBuf
	rd := &vpRd{b: vpReplyBytes(env.call(NFSPROC3_GETATTR, g.fh(ha).Bytes()))}
	if rd.u32() == NFS_OK {
		a := rd.fattr()
		vpAssert(a.fileid == vpFnv64a("/d/a"), "old-handle-never-served-against-another-path")
	}
}
