package absnfs

// Shared harness helpers: server construction through the public constructor,
// request encoding with the repo's own XDR encoders, and an independent reply
// reader written from the RFC 1813 / RFC 1831 grammar.

import (
	"bytes"
	"time"
)

type vpEnv struct {
	fs   *vpFS
	nfs  *AbsfsNFS
	srv  *Server
	h    *NFSProcedureHandler
	auth *AuthContext
}

// vpServer builds a server the way Listen does (minus the listener): New +
// NewServer + SetHandler + NFSProcedureHandler.
func vpServer(fs *vpFS, opts ExportOptions) *vpEnv {
	if opts.MaxWorkers == 0 {
		opts.MaxWorkers = 1
	}
	nfs, err := New(fs, opts)
	if err != nil {
		panic("vpServer: New failed: " + err.Error())
	}
	if vpSymbolic() {
		nfs.workerPool = nil // goroutines are parked in the engine; handlers never use the pool
	} else {
		nfs.workerPool.Stop()
		nfs.workerPool = nil
	}
	srv, err := NewServer(ServerOptions{Name: "vp", Port: 0})
	if err != nil {
		panic("vpServer: NewServer failed")
	}
	srv.SetHandler(nfs)
	fs.log = nil
	return &vpEnv{fs: fs, nfs: nfs, srv: srv, h: &NFSProcedureHandler{server: srv},
		auth: &AuthContext{ClientIP: "127.0.0.1", ClientPort: 700, Credential: &RPCCredential{Flavor: AUTH_SYS}, AuthSys: &AuthSysCredential{}}}
}

// handleFor installs a live handle for an existing path through the real Allocate.
func (e *vpEnv) handleFor(p string) uint64 {
	node, err := e.nfs.Lookup(p)
	if err != nil {
		panic("vpEnv.handleFor: lookup of " + p + " failed: " + err.Error())
	}
	return e.nfs.fileMap.Allocate(node)
}

func (e *vpEnv) clearCaches() {
	e.nfs.attrCache.Clear()
	if e.nfs.dirCache != nil {
		e.nfs.dirCache.Clear()
	}
}

// call dispatches one NFS procedure through the real dispatch table.
func (e *vpEnv) call(proc uint32, body []byte) *RPCReply {
	call := &RPCCall{Header: RPCMsgHeader{Xid: 7, MsgType: RPC_CALL, RPCVersion: 2, Program: NFS_PROGRAM, Version: NFS_V3, Procedure: proc}}
	reply := &RPCReply{Header: call.Header, Status: MSG_ACCEPTED, AcceptStatus: SUCCESS, Verifier: RPCVerifier{Body: []byte{}}}
	r, err := e.h.handleNFSCall(call, bytes.NewReader(body), reply, e.auth)
	if err != nil {
		return nil
	}
	return r
}

func vpReplyBytes(r *RPCReply) []byte {
	if r == nil {
		return nil
	}
	b, ok := r.Data.([]byte)
	if !ok {
		return nil
	}
	return b
}

// ---- request building

type vpBuf struct{ bytes.Buffer }

func (b *vpBuf) u32(v uint32) *vpBuf     { xdrEncodeUint32(&b.Buffer, v); return b }
func (b *vpBuf) u64(v uint64) *vpBuf     { xdrEncodeUint64(&b.Buffer, v); return b }
func (b *vpBuf) fh(h uint64) *vpBuf      { xdrEncodeFileHandle(&b.Buffer, h); return b }
func (b *vpBuf) str(s string) *vpBuf     { xdrEncodeString(&b.Buffer, s); return b }
func (b *vpBuf) opaque(p []byte) *vpBuf  { xdrEncodeString(&b.Buffer, string(p)); return b }
func (b *vpBuf) raw(p []byte) *vpBuf     { b.Buffer.Write(p); return b }

type vpSattr struct {
	setMode, setUID, setGID, setSize bool
	mode, uid, gid                   uint32
	size                             uint64
	setAtime, setMtime               uint32 // 0 don't change, 1 server time, 2 client time
	atimeSec, atimeNsec              uint32
	mtimeSec, mtimeNsec              uint32
}

func vpB(c bool) uint32 {
	return vpIteU32(c, 1, 0)
}

func (b *vpBuf) sattr(s *vpSattr) *vpBuf {
	if s.setMode {
		b.u32(1).u32(s.mode)
	} else {
		b.u32(0)
	}
	if s.setUID {
		b.u32(1).u32(s.uid)
	} else {
		b.u32(0)
	}
	if s.setGID {
		b.u32(1).u32(s.gid)
	} else {
		b.u32(0)
	}
	if s.setSize {
		b.u32(1).u64(s.size)
	} else {
		b.u32(0)
	}
	b.u32(s.setAtime)
	if s.setAtime == 2 {
		b.u32(s.atimeSec).u32(s.atimeNsec)
	}
	b.u32(s.setMtime)
	if s.setMtime == 2 {
		b.u32(s.mtimeSec).u32(s.mtimeNsec)
	}
	return b
}

// ---- independent reply reader (big-endian XDR, written from the RFCs)

type vpRd struct {
	b   []byte
	pos int
	bad bool
}

func (r *vpRd) u32() uint32 {
	if r.pos+4 > len(r.b) {
		r.bad = true
		r.pos = len(r.b)
		return 0
	}
	v := uint32(r.b[r.pos])<<24 | uint32(r.b[r.pos+1])<<16 | uint32(r.b[r.pos+2])<<8 | uint32(r.b[r.pos+3])
	r.pos += 4
	return v
}

func (r *vpRd) u64() uint64 {
	hi := r.u32()
	lo := r.u32()
	return uint64(hi)<<32 | uint64(lo)
}

func (r *vpRd) opaque() []byte {
	n := int(vpConcreteU64(uint64(r.u32())))
	if r.bad || n < 0 || r.pos+n > len(r.b) {
		r.bad = true
		return nil
	}
	out := r.b[r.pos : r.pos+n]
	r.pos += (n + 3) &^ 3
	if r.pos > len(r.b) {
		r.bad = true
	}
	return out
}

func (r *vpRd) done() bool { return !r.bad && r.pos == len(r.b) }

type vpFattr struct {
	ftype, mode, nlink, uid, gid uint32
	size, used                   uint64
	fsid, fileid                 uint64
	atimeS, atimeN               uint32
	mtimeS, mtimeN               uint32
	ctimeS, ctimeN               uint32
}

func (r *vpRd) fattr() vpFattr {
	var a vpFattr
	a.ftype, a.mode, a.nlink, a.uid, a.gid = r.u32(), r.u32(), r.u32(), r.u32(), r.u32()
	a.size, a.used = r.u64(), r.u64()
	r.u32()
	r.u32()
	a.fsid, a.fileid = r.u64(), r.u64()
	a.atimeS, a.atimeN, a.mtimeS, a.mtimeN, a.ctimeS, a.ctimeN = r.u32(), r.u32(), r.u32(), r.u32(), r.u32(), r.u32()
	return a
}

// postOp reads post_op_attr; ok reports attributes_follow.
func (r *vpRd) postOp() (vpFattr, bool) {
	f := r.u32()
	if f == 0 {
		return vpFattr{}, false
	}
	if f != 1 {
		r.bad = true
		return vpFattr{}, false
	}
	return r.fattr(), true
}

func (r *vpRd) wccAttr() bool {
	f := r.u32()
	if f == 0 {
		return false
	}
	if f != 1 {
		r.bad = true
		return false
	}
	r.u64()
	r.u32()
	r.u32()
	r.u32()
	r.u32()
	return true
}

func (r *vpRd) wccData() (vpFattr, bool) {
	r.wccAttr()
	return r.postOp()
}

func vpFnv64a(s string) uint64 {
	h := uint64(14695981039346656037)
	for i := 0; i < len(s); i++ {
		h ^= uint64(s[i])
		h *= 1099511628211
	}
	return h
}

var _ = time.Second
