package absnfs

// Shared harness helpers: server construction through the public constructor,
// request encoding with the repo's own XDR encoders, and an independent reply
// reader written from the RFC 1813 / RFC 1831 grammar.

import (
	"bytes"
	"time"
)

type vpEnv struct {
	fs   *vpFS
	nfs  *AbsfsNFS
	srv  *Server
	h    *NFSProcedureHandler
	auth *AuthContext
}

// vpServer builds a server the way Listen does (minus the listener): New +
// NewServer + SetHandler + NFSProcedureHandler.
func vpServer(fs *vpFS, opts ExportOptions) *vpEnv {
	if opts.MaxWorkers == 0 {
		opts.MaxWorkers = 1
	}
	nfs, err := New(fs, opts)
	if err != nil {
		panic("vpServer: New failed: " + err.Error())
	}
	if vpSymbolic() {
		nfs.workerPool = nil // goroutines are parked in the engine; handlers never use the pool
	} else {
		nfs.workerPool.Stop()
		nfs.workerPool = nil
	}
	srv, err := NewServer(ServerOptions{Name: "vp", Port: 0})
	if err != nil {
		panic("vpServer: NewServer failed")
	}
	srv.SetHandler(nfs)
	fs.log = nil
	return &vpEnv{fs: fs, nfs: nfs, srv: srv, h: &NFSProcedureHandler{server: srv},
		auth: &AuthContext{ClientIP: "127.0.0.1", ClientPort: 700, Credential: &RPCCredential{Flavor: AUTH_SYS}, AuthSys: &AuthSysCredential{}}}
}

// handleFor installs a live handle for an existing path through the real Allocate.
func (e *vpEnv) handleFor(p string) uint64 {
	node, err := e.nfs.Lookup(p)
	if err != nil {
		panic("vpEnv.handleFor: lookup of " + p + " failed: " + err.Error())
	}
	return e.nfs.fileMap.Allocate(node)
}

func (e *vpEnv) clearCaches() {
	e.nfs.attrCache.Clear()
	if e.nfs.dirCache != nil {
		e.nfs.dirCache.Clear()
	}
}

// call dispatches one NFS procedure through the real dispatch table.
func (e *vpEnv) call(proc uint32, body []byte) *RPCReply {
	call := &RPCCall{Header: RPCMsgHeader{Xid: 7, MsgType: RPC_CALL, RPCVersion: 2, Program: NFS_PROGRAM, Version: NFS_V3, Procedure: proc}}
	reply := &RPCReply{Header: call.Header, Status: MSG_ACCEPTED, AcceptStatus: SUCCESS, Verifier: RPCVerifier{Body: []byte{}}}
	r, err := e.h.handleNFSCall(call, bytes.NewReader(body), reply, e.auth)
	if err != nil {
		return nil
	}
	return r
}

func vpReplyBytes(r *RPCReply) []byte {
	if r == nil {
		return nil
	}
	b, ok := r.Data.([]byte)
	if !ok {
		return nil
	}
	return b
}

// ---- request building

type vpBuf struct{ bytes.Buffer }

func (b *vpBuf) u32(v uint32) *vpBuf    { xdrEncodeUint32(&b.Buffer, v); return b }
func (b *vpBuf) u64(v uint64) *vpBuf    { xdrEncodeUint64(&b.Buffer, v); return b }
func (b *vpBuf) fh(h uint64) *vpBuf     { xdrEncodeFileHandle(&b.Buffer, h); return b }
func (b *vpBuf) str(s string) *vpBuf    { xdrEncodeString(&b.Buffer, s); return b }
func (b *vpBuf) opaque(p []byte) *vpBuf { xdrEncodeString(&b.Buffer, string(p)); return b }
func (b *vpBuf) raw(p []byte) *vpBuf    { b.Buffer.Write(p); return b }

type vpSattr struct {
	setMode, setUID, setGID, setSize bool
	mode, uid, gid                   uint32
	size                             uint64
	setAtime, setMtime               uint32 // 0 don't change, 1 server time, 2 client time
	atimeSec, atimeNsec              uint32
	mtimeSec, mtimeNsec              uint32
}

func vpB(c bool) uint32 {
	return vpIteU32(c, 1, 0)
}

func (b *vpBuf) sattr(s *vpSattr) *vpBuf {
	if s.setMode {
		b.u32(1).u32(s.mode)
	} else {
		b.u32(0)
	}
	if s.setUID {
		b.u32(1).u32(s.uid)
	} else {
		b.u32(0)
	}
	if s.setGID {
		b.u32(1).u32(s.gid)
	} else {
		b.u32(0)
	}
	if s.setSize {
		b.u32(1).u64(s.size)
	} else {
		b.u32(0)
	}
	b.u32(s.setAtime)
	if s.setAtime == 2 {
		b.u32(s.atimeSec).u32(s.atimeNsec)
	}
	b.u32(s.setMtime)
	if s.setMtime == 2 {
		b.u32(s.mtimeSec).u32(s.mtimeNsec)
	}
	return b
}

// ---- independent reply reader (big-endian XDR, written from the RFCs)

type vpRd struct {
	b   []byte
	pos int
	bad bool
}

func (r *vpRd) u32() uint32 {
	if r.pos+4 > len(r.b) {
		r.bad = true
		r.pos = len(r.b)
		return 0
	}
	v := uint32(r.b[r.pos])<<24 | uint32(r.b[r.pos+1])<<16 | uint32(r.b[r.pos+2])<<8 | uint32(r.b[r.pos+3])
	r.pos += 4
	return v
}

func (r *vpRd) u64() uint64 {
	hi := r.u32()
	lo := r.u32()
	return uint64(hi)<<32 | uint64(lo)
}

func (r *vpRd) opaque() []byte {
	n := int(vpConcreteU64(uint64(r.u32())))
	if r.bad || n < 0 || r.pos+n > len(r.b) {
		r.bad = true
		return nil
	}
	out := r.b[r.pos : r.pos+n]
	r.pos += (n + 3) &^ 3
	if r.pos > len(r.b) {
		r.bad = true
	}
	return out
}

func (r *vpRd) done() bool { return !r.bad && r.pos == len(r.b) }

type vpFattr struct {
	ftype, mode, nlink, uid, gid uint32
	size, used                   uint64
	fsid, fileid                 uint64
	atimeS, atimeN               uint32
	mtimeS, mtimeN               uint32
	ctimeS, ctimeN               uint32
}

func (r *vpRd) fattr() vpFattr {
	var a vpFattr
	a.ftype, a.mode, a.nlink, a.uid, a.gid = r.u32(), r.u32(), r.u32(), r.u32(), r.u32()
	a.size, a.used = r.u64(), r.u64()
	r.u32()
	r.u32()
	a.fsid, a.fileid = r.u64(), r.u64()
	a.atimeS, a.atimeN, a.mtimeS, a.mtimeN, a.ctimeS, a.ctimeN = r.u32(), r.u32(), r.u32(), r.u32(), r.u32(), r.u32()
	return a
}

// postOp reads post_op_attr; ok reports attributes_follow.
func (r *vpRd) postOp() (vpFattr, bool) {
	f := r.u32()
	if f == 0 {
		return vpFattr{}, false
	}
	if f != 1 {
		r.bad = true
		return vpFattr{}, false
	}
	return r.fattr(), true
}

func (r *vpRd) wccAttr() bool {
	f := r.u32()
	if f == 0 {
		return false
	}
	if f != 1 {
		r.bad = true
		return false
	}
	r.u64()
	r.u32()
	r.u32()
	r.u32()
	r.u32()
	return true
}

func (r *vpRd) wccData() (vpFattr, bool) {
	r.wccAttr()
	return r.postOp()
}

func vpFnv64a(s string) uint64 {
	h := uint64(14695981039346656037)
	for i := 0; i < len(s); i++ {
		h ^= uint64(s[i])
		h *= 1099511628211
	}
	return h
}

var _ = time.Second

// ---- generic well-formed requests with symbolic fields

type vpGen struct {
	handles  []uint64 // live handle values to choose from
	names    []string // names to choose from
	wild     bool     // also allow an arbitrary handle value / arbitrary short name
	wildName int      // longest arbitrary name (0 = 2 bytes, -1 = names from the menu only)
	maxData  int      // WRITE payload bound
	fixed    bool     // no choices: first handle, first name, the all-fields sattr3
}

func (g *vpGen) fh(tag string) uint64 {
	if g.fixed {
		return g.handles[0]
	}
	n := len(g.handles)
	hi := n - 1
	if g.wild {
		hi = n
	}
	k := vpChoose(tag, 0, hi)
	if k == n {
		return vpU64(tag + ".wild")
	}
	return g.handles[k]
}

func (g *vpGen) name(tag string) string {
	if g.fixed {
		return g.names[0]
	}
	n := len(g.names)
	hi := n - 1
	if g.wild && g.wildName >= 0 {
		hi = n
	}
	k := vpChoose(tag, 0, hi)
	if k == n {
		max := g.wildName
		if max == 0 {
			max = 2
		}
		return vpStr(tag+".wild", vpChoose(tag+".wildlen", 1, max))
	}
	return g.names[k]
}

// sattr draws a sattr3 from a menu of field combinations with symbolic values.
func (g *vpGen) sattr(tag string) *vpSattr {
	s := &vpSattr{mode: vpU32(tag + ".mode"), uid: vpU32(tag + ".uid"), gid: vpU32(tag + ".gid"), size: vpU64(tag + ".size")}
	sel := 4
	if !g.fixed {
		sel = vpChoose(tag+".fields", 0, 5)
	}
	switch sel {
	case 0:
	case 1:
		s.setMode = true
	case 2:
		s.setUID, s.setGID = true, true
	case 3:
		s.setSize = true
	case 4:
		s.setMode, s.setUID, s.setGID, s.setSize = true, true, true, true
		s.setAtime, s.setMtime = 1, 1
	case 5:
		s.setAtime, s.setMtime = 2, 2
		s.atimeSec, s.mtimeSec = 1_600_000_500, 1_600_000_600
	}
	return s
}

// args builds well-formed arguments for an NFSv3 procedure.
func (g *vpGen) args(proc uint32) []byte {
	var b vpBuf
	switch proc {
	case NFSPROC3_NULL:
	case NFSPROC3_GETATTR, NFSPROC3_READLINK, NFSPROC3_FSSTAT, NFSPROC3_FSINFO, NFSPROC3_PATHCONF:
		b.fh(g.fh("fh"))
	case NFSPROC3_SETATTR:
		b.fh(g.fh("fh")).sattr(g.sattr("sattr"))
		// sattrguard3: absent, or a ctime the object may or may not still have
		if !g.fixed && vpBool("guard") {
			b.u32(1).u32(vpU32("guard.sec")).u32(vpU32("guard.nsec"))
		} else {
			b.u32(0)
		}
	case NFSPROC3_LOOKUP, NFSPROC3_REMOVE, NFSPROC3_RMDIR:
		b.fh(g.fh("fh")).str(g.name("name"))
	case NFSPROC3_ACCESS:
		b.fh(g.fh("fh")).u32(vpU32("access"))
	case NFSPROC3_READ:
		b.fh(g.fh("fh")).u64(vpU64("offset")).u32(vpU32("count"))
	case NFSPROC3_WRITE:
		n := g.maxData
		if !g.fixed {
			n = vpChoose("wlen", 0, g.maxData)
		}
		b.fh(g.fh("fh")).u64(vpU64("offset")).u32(uint32(n)).u32(vpU32("stable")).opaque(vpBytes("wdata", n))
	case NFSPROC3_CREATE:
		b.fh(g.fh("fh")).str(g.name("name"))
		how := 0
		if !g.fixed {
			how = vpChoose("how", 0, 2)
		}
		b.u32(uint32(how))
		if how == 2 {
			b.raw(vpBytes("verf", 8))
		} else {
			b.sattr(g.sattr("sattr"))
		}
	case NFSPROC3_MKDIR:
		b.fh(g.fh("fh")).str(g.name("name")).sattr(g.sattr("sattr"))
	case NFSPROC3_SYMLINK:
		b.fh(g.fh("fh")).str(g.name("name")).sattr(g.sattr("sattr")).str(g.name("target"))
	case NFSPROC3_MKNOD:
		b.fh(g.fh("fh")).str(g.name("name")).u32(vpU32("ftype"))
	case NFSPROC3_RENAME:
		b.fh(g.fh("fh")).str(g.name("name")).fh(g.fh("fh2")).str(g.name("name2"))
	case NFSPROC3_LINK:
		b.fh(g.fh("fh")).fh(g.fh("fh2")).str(g.name("name"))
	case NFSPROC3_READDIR:
		b.fh(g.fh("fh")).u64(vpU64("cookie")).raw(vpBytes("cookieverf", 8)).u32(vpU32("count"))
	case NFSPROC3_READDIRPLUS:
		b.fh(g.fh("fh")).u64(vpU64("cookie")).raw(vpBytes("cookieverf", 8)).u32(vpU32("dircount")).u32(vpU32("maxcount"))
	case NFSPROC3_COMMIT:
		b.fh(g.fh("fh")).u64(vpU64("offset")).u32(vpU32("count"))
	default:
		b.raw(vpBytes("unknownargs", 8))
	}
	return b.Bytes()
}

// vpStdTree is the small tree most handler harnesses start from:
// /d (dir) with x (5-byte file), l (symlink to x); /e (empty dir); /d/new absent.
func vpStdTree() *vpFS {
	fs := vpNewFS()
	fs.addDir("/d")
	fs.addFileData("/d/x", []byte("hello"))
	fs.addLink("/d/l", "x")
	fs.addDir("/e")
	fs.addAbsent("/d/new")
	return fs
}

// vpSnapshot renders the backend state so that "unchanged" is one comparison.
func (f *vpFS) snapshot() string {
	var b bytes.Buffer
	for _, p := range f.order {
		n := f.nodes[p]
		if !n.exists {
			continue
		}
		b.WriteString(p)
		b.WriteByte(':')
		b.WriteByte('0' + n.kind)
		b.WriteByte(':')
		b.WriteString(string(n.data))
		b.WriteByte(':')
		b.WriteString(n.target)
		b.WriteByte(';')
	}
	return b.String()
}

var vpMutatingProcs = map[uint32]bool{
	NFSPROC3_SETATTR: true, NFSPROC3_WRITE: true, NFSPROC3_CREATE: true, NFSPROC3_MKDIR: true, NFSPROC3_SYMLINK: true, NFSPROC3_MKNOD: true,
	NFSPROC3_REMOVE: true, NFSPROC3_RMDIR: true, NFSPROC3_RENAME: true, NFSPROC3_LINK: true, NFSPROC3_COMMIT: true,
}
