package absnfs

// C26 — directory listings page completely and respect the client's size limit.

func init() {
	vpRegister("VPH_C26_readdir", VPH_C26_readdir)
	vpRegister("VPH_C26_readdirplus", VPH_C26_readdirplus)
	vpRegister("VPH_C26_under_timeouts", VPH_C26_under_timeouts)
}

var vpNameLens = []int{1, 2, 3, 4, 5, 252, 253, 254, 255}

func vpDirWithEntries(e int) (*vpFS, []string) {
	fs := vpNewFS()
	fs.addDir("/d")
	var names []string
	for i := 0; i < e; i++ {
		l := vpNameLens[vpChoose("namelen", 0, len(vpNameLens)-1)]
		b := make([]byte, l)
		for k := range b {
			b[k] = byte('a' + i)
		}
		names = append(names, string(b))
		if i%2 == 0 {
			fs.addFile("/d/"+string(b), int64(i))
		} else {
			fs.addDir("/d/" + string(b))
		}
	}
	return fs, names
}

type vpDirEntry struct {
	fileid, cookie uint64
	name           string
}

// vpReadEntries reads the entry list of a READDIR3resok / READDIRPLUS3resok body.
func vpReadEntries(rd *vpRd, plus bool) ([]vpDirEntry, bool) {
	var out []vpDirEntry
	for {
		more := rd.u32()
		if rd.bad || more > 1 {
			rd.bad = true
			return out, false
		}
		if more == 0 {
			break
		}
		var e vpDirEntry
		e.fileid = rd.u64()
		e.name = string(rd.opaque())
		e.cookie = rd.u64()
		if plus {
			rd.postOp()
			if rd.u32() == 1 {
				rd.opaque()
			}
		}
		if rd.bad {
			return out, false
		}
		out = append(out, e)
	}
	eof := rd.u32()
	return out, eof != 0
}

func vpPaging(plus bool) {
	E := 2
	if vpTier() == 1 {
		E = 3
	}
	e := vpChoose("entries", 0, E)
	fs, names := vpDirWithEntries(e)
	env := vpServer(fs, ExportOptions{EnableDirCache: vpBool("dircache")})
	h := env.handleFor("/d")
	var got []vpDirEntry
	cookie := uint64(0)
	eof := false
	for call := 0; call <= e+1 && !eof; call++ {
		count := vpU32("count")
		var b vpBuf
		var proc uint32
		if plus {
			proc = NFSPROC3_READDIRPLUS
			b.fh(h).u64(cookie).raw(make([]byte, 8)).u32(vpU32("dircount")).u32(count)
		} else {
			proc = NFSPROC3_READDIR
			b.fh(h).u64(cookie).raw(make([]byte, 8)).u32(count)
		}
		body := vpReplyBytes(env.call(proc, b.Bytes()))
		rd := &vpRd{b: body}
		st := rd.u32()
		if st == 10005 { // NFS3ERR_TOOSMALL: legitimate only when not even one entry fits
			vpReach("toosmall")
			// post_op_attr (88) + cookieverf (8) + the first remaining entry + the two closing words
			need := uint64(88 + 8 + 8)
			if len(got) < e {
				nl := (len(names[len(got)]) + 3) / 4 * 4
				need += uint64(4 + 8 + 4 + nl + 8)
				if plus {
					need += 88 + 16
				}
			}
			vpAssert(need > uint64(count), "toosmall-only-when-nothing-fits")
			return
		}
		vpAssert(st == NFS_OK, "readdir-ok")
		rd.postOp()
		rd.u64() // cookieverf
		ents, e2 := vpReadEntries(rd, plus)
		vpAssert(rd.done(), "reply-shape")
		// the encoded READDIR3resok / READDIRPLUS3resok (the body after the status word) fits the size
		// the client gave. Known: the server always returns the first entry (and never answers
		// TOOSMALL), so a result holding at most one entry may still exceed the count.
		vpKnown("K-C26-reply-exceeds-count", len(ents) <= 1)
		vpAssert(uint64(len(body)-4) <= uint64(count), "reply-fits-count")
		vpKnownClear()
		remaining := e - len(got)
		if remaining > 0 {
			vpAssert(len(ents) >= 1, "call-returns-at-least-one-entry")
		}
		for _, x := range ents {
			got = append(got, x)
			cookie = x.cookie
		}
		eof = e2
		if len(ents) == 0 && !eof {
			vpAssert(false, "no-progress-without-eof")
		}
	}
	vpAssert(eof, "listing-ends-with-eof")
	vpAssert(len(got) == e, "every-entry-exactly-once")
	for i := 0; i < e && i < len(got); i++ {
		vpAssert(got[i].name == names[i], "entry-name")
		if plus {
			vpKnown("K-C04-readdirplus-refresh-drops-fileid", true)
		}
		vpAssert(got[i].fileid == vpFnv64a("/d/"+names[i]), "entry-fileid")
		vpKnownClear()
	}
	vpReach("complete")
}

func VPH_C26_readdir()     { vpPaging(false) }
func VPH_C26_readdirplus() { vpPaging(true) }

// VPH_C26_under_timeouts: the request's deadline may pass at any look the code takes at its context.
// A READDIR / READDIRPLUS that then still answers NFS3_OK (with room for everything) lists the whole
// directory: a deadline turns the call into an error, never into a shorter listing that says eof.
func VPH_C26_under_timeouts() {
	E := 2
	if vpTier() == 1 {
		E = 3
	}
	fs := vpNewFS()
	fs.addDir("/d")
	names := []string{"a", "bb", "ccc"}[:E]
	for i, n := range names {
		if i%2 == 0 {
			fs.addFile("/d/"+n, int64(i))
		} else {
			fs.addDir("/d/" + n)
		}
	}
	env := vpServer(fs, ExportOptions{EnableDirCache: vpBool("dircache")})
	h := env.handleFor("/d")
	if vpBool("listing-warm") {
		var w vpBuf
		env.call(NFSPROC3_READDIR, w.fh(h).u64(0).raw(make([]byte, 8)).u32(8192).Bytes())
	}
	plus := vpBool("plus")
	var b vpBuf
	proc := uint32(NFSPROC3_READDIR)
	if plus {
		proc = NFSPROC3_READDIRPLUS
		b.fh(h).u64(0).raw(make([]byte, 8)).u32(8192).u32(32768)
	} else {
		b.fh(h).u64(0).raw(make([]byte, 8)).u32(8192)
	}
	vpTimeoutsOn = true
	reply := env.call(proc, b.Bytes())
	vpTimeoutsOn = false
	vpAssert(reply != nil, "reply")
	rd := &vpRd{b: vpReplyBytes(reply)}
	st := rd.u32()
	vpObserve("status", st)
	if st != NFS_OK {
		vpReach("call-failed-on-deadline")
		return
	}
	vpReach("answered")
	rd.postOp()
	rd.u64()
	ents, eof := vpReadEntries(rd, plus)
	vpAssert(rd.done(), "reply-shape")
	vpAssert(eof, "everything-fits-so-eof")
	vpAssert(len(ents) == E, "answered-listing-is-complete-whatever-the-deadline-did")
	for i := range ents {
		if i < E {
			vpAssert(ents[i].name == names[i], "entry-name")
		}
	}
}
