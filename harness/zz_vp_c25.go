package absnfs

// C25 — MaxFileSize is enforced.

func init() {
	vpRegister("VPH_C25_write", VPH_C25_write)
	vpRegister("VPH_C25_setattr", VPH_C25_setattr)
}

// vpMaxSizeEnv builds a server whose MaxFileSize is m, installed in one of the ways a limit comes
// into force: 0 at construction, 1 by UpdatePolicyOptions, 2 by UpdateExportOptions on the
// GetExportOptions snapshot, 3 at construction followed by an unrelated read-modify-write of the
// options (GetExportOptions, change another field, UpdateExportOptions) - the limit must survive it.
func vpMaxSizeEnv(m int64, size int64, how int) (*vpEnv, *vpNode, uint64) {
	fs := vpNewFS()
	fs.addDir("/d")
	n := fs.addFile("/d/x", 0)
	n.size = size
	var env *vpEnv
	switch how {
	case 1:
		env = vpServer(fs, ExportOptions{TransferSize: 8})
		p := *env.nfs.policy.Load()
		p.MaxFileSize = m
		if env.nfs.UpdatePolicyOptions(p) != nil {
			vpAssume(false)
		}
	case 2:
		env = vpServer(fs, ExportOptions{TransferSize: 8})
		o := env.nfs.GetExportOptions()
		o.MaxFileSize = m
		if env.nfs.UpdateExportOptions(o) != nil {
			vpAssume(false)
		}
	case 3:
		env = vpServer(fs, ExportOptions{TransferSize: 8, MaxFileSize: m})
		o := env.nfs.GetExportOptions()
		o.AttrCacheSize = 123
		if env.nfs.UpdateExportOptions(o) != nil {
			vpAssume(false)
		}
	default:
		env = vpServer(fs, ExportOptions{TransferSize: 8, MaxFileSize: m})
	}
	return env, n, env.handleFor("/d/x")
}

func VPH_C25_write() {
	m := vpI64("max")
	vpAssume(m > 0)
	size0 := vpI64("size")
	vpAssume(vpAnd(size0 >= 0, size0 <= m)) // the file starts within the limit
	env, n, h := vpMaxSizeEnv(m, size0, vpChoose("limit-installed", 0, 3))
	twin, tn, th := vpMaxSizeEnv(0, size0, 0) // the same server without a limit
	off := vpU64("offset")
	cnt := vpChoose("count", 0, 4)
	data := vpBytes("data", cnt)
	args := func(h uint64) []byte {
		var b vpBuf
		b.fh(h).u64(off).u32(uint32(cnt)).u32(2).opaque(data)
		return b.Bytes()
	}
	env.fs.log, twin.fs.log = nil, nil
	rd := &vpRd{b: vpReplyBytes(env.call(NFSPROC3_WRITE, args(h)))}
	status := rd.u32()
	trd := &vpRd{b: vpReplyBytes(twin.call(NFSPROC3_WRITE, args(th)))}
	tstatus := trd.u32()
	vpObserve("status", status)
	vpObserve("status-without-limit", tstatus)
	// would the write make the file larger than the limit? (no wrap-around: compared in uint64 pieces)
	over := vpAnd(cnt > 0, vpOr(off > uint64(m), uint64(cnt) > uint64(m)-off))
	if vpAnd(over, tstatus == NFS_OK) {
		vpReach("over-limit")
		vpKnown("K-C25-maxfilesize-not-enforced", true)
		vpAssert(status == NFSERR_FBIG, "write-over-limit-is-FBIG")
		vpAssert(env.fs.count("WriteAt") == 0, "write-over-limit-not-performed")
		vpAssert(n.size == size0, "file-unchanged")
	} else if !over {
		vpReach("within-limit")
		// behaves exactly as without the limit
		vpAssert(status == tstatus, "within-limit-same-status")
		vpAssert(env.fs.count("WriteAt") == twin.fs.count("WriteAt"), "within-limit-same-backend-writes")
		vpAssert(n.size == tn.size, "within-limit-same-size")
	}
	vpKnown("K-C25-maxfilesize-not-enforced", true)
	vpAssert(n.size <= m, "size-never-exceeds-limit")
}

func VPH_C25_setattr() {
	m := vpI64("max")
	vpAssume(m > 0)
	size0 := vpI64("size")
	vpAssume(vpAnd(size0 >= 0, size0 <= m))
	env, n, h := vpMaxSizeEnv(m, size0, vpChoose("limit-installed", 0, 3))
	newSize := vpU64("newsize")
	s := &vpSattr{setSize: true, size: newSize}
	var b vpBuf
	b.fh(h).sattr(s).u32(0)
	env.fs.log = nil
	reply := env.call(NFSPROC3_SETATTR, b.Bytes())
	rd := &vpRd{b: vpReplyBytes(reply)}
	status := rd.u32()
	vpObserve("status", status)
	if newSize > uint64(m) {
		vpReach("over-limit")
		vpKnown("K-C25-maxfilesize-not-enforced", newSize < 1<<63)
		vpAssert(status != NFS_OK, "setattr-over-limit-fails")
		vpAssert(n.size == size0, "file-unchanged")
		// sizes that do not even fit a signed 64-bit offset may be refused as invalid instead
		vpAssert(vpImplies(newSize < 1<<63, status == NFSERR_FBIG), "setattr-over-limit-is-FBIG")
	} else {
		vpReach("within-limit")
		vpAssert(status == NFS_OK, "setattr-within-limit-ok")
		vpAssert(n.size == int64(newSize), "setattr-within-limit-performed")
	}
}
