package absnfs

// C14 — every reply is a well-formed RFC 1813 / RFC 1831 reply.

import (
	"bytes"
	"syscall"
)

func init() {
	vpRegister("VPH_C14_nfs", VPH_C14_nfs)
	vpRegister("VPH_C14_mount", VPH_C14_mount)
	vpRegister("VPH_C14_rpc", VPH_C14_rpc)
	vpRegister("VPH_C14_connection_rate_limited", VPH_C14_connection_rate_limited)
}

// vpC14Env builds a server in one of the states of the statement.
func vpC14Env() (*vpEnv, string) {
	fs := vpStdTree()
	state := []string{"normal", "read-only", "rate-limited", "drain"}[vpChoose("state", 0, 3)]
	opts := ExportOptions{}
	switch state {
	case "read-only":
		opts.ReadOnly = true
	case "rate-limited":
		opts.EnableRateLimiting = true
		cfg := DefaultRateLimiterConfig()
		cfg.ReaddirOpsPerSecond, cfg.MountOpsPerMinute = 0, 0
		opts.RateLimitConfig = &cfg
	}
	env := vpServer(fs, opts)
	vpReach("state-" + state)
	return env, state
}

func vpExhaustOpLimits(env *vpEnv) {
	// use up the per-operation bursts so that the next READDIR / MNT is refused
	if env.nfs.rateLimiter == nil {
		return
	}
	for i := 0; i < 12; i++ {
		env.nfs.rateLimiter.AllowOperation(env.auth.ClientIP, OpTypeReaddir)
		env.nfs.rateLimiter.AllowOperation(env.auth.ClientIP, OpTypeMount)
	}
}

func vpEncodeReply(reply *RPCReply) []byte {
	var out bytes.Buffer
	if err := EncodeRPCReply(&out, reply); err != nil {
		return nil
	}
	return out.Bytes()
}

// VPH_C14_nfs: one NFS call of every procedure through HandleCall in every server state, with
// well-formed symbolic arguments, the same arguments truncated at a symbolic point, or garbage
// bytes, and an optional backend fault: the encoded reply decodes exactly as the RFC demands.
func VPH_C14_nfs() {
	env, state := vpC14Env()
	hd, hx, hl := env.handleFor("/d"), env.handleFor("/d/x"), env.handleFor("/d/l")
	vpExhaustOpLimits(env)
	sel := vpChoose("proc", 0, 22)
	var proc uint32
	if sel == 22 {
		proc = vpU32("unknownproc")
		vpAssume(proc > 21)
	} else {
		proc = uint32(sel)
	}
	// the handle menu includes one that is no longer tracked (stale), in either position of the
	// two-handle procedures
	g := &vpGen{handles: []uint64{hd, hx, hl, 0x7fffffff00000001}, names: []string{"x", "new"}, wild: vpTier() == 1, wildName: -1, maxData: 2}
	var body []byte
	argSel := vpChoose("args", 0, 2)
	switch argSel {
	case 0:
		body = g.args(proc)
		vpReach("args-wellformed")
	case 1:
		g.fixed = true // one representative well-formed encoding, cut at every word
		full := g.args(proc)
		cut := 0
		if len(full) > 0 {
			cut = 4 * vpChoose("cut", 0, (len(full)-1)/4)
		}
		body = full[:cut]
		vpReach("args-truncated")
	case 2:
		n := 4 * vpChoose("words", 0, 3)
		body = vpBytes("garbage", n)
		for w := 0; w+4 <= n; w += 4 {
			v := uint32(body[w])<<24 | uint32(body[w+1])<<16 | uint32(body[w+2])<<8 | uint32(body[w+3])
			vpAssume(vpOr(v <= 8, v > 8192))
		}
		vpReach("args-garbage")
	}
	// backend fault on the next call of one operation (normal state only)
	// Backend fault (normal state, well-formed arguments): the n-th fallible backend operation the
	// handler makes fails, whichever it is, with an arbitrary errno (symbolic: ELOOP, EBUSY, EMFILE, ...
	// as well as the ones mapError names).
	if state == "normal" && argSel == 0 {
		if nth := vpChoose("fault", 0, 3); nth > 0 {
			errno := vpU32("errno")
			vpAssume(vpAnd(errno >= 1, errno <= 133))
			env.fs.failNth, env.fs.failSeen, env.fs.failErr = nth, 0, vpErr("fault", "/x", syscall.Errno(errno))
			vpReach("backend-fault")
		}
	}
	xid := vpU32("xid")
	call := &RPCCall{Header: RPCMsgHeader{Xid: xid, MsgType: RPC_CALL, RPCVersion: 2, Program: NFS_PROGRAM, Version: NFS_V3, Procedure: proc},
		Credential: RPCCredential{Flavor: AUTH_NONE}}
	if proc == NFSPROC3_GETATTR && vpBool("other-version") {
		call.Header.Version = vpU32("version")
		vpAssume(call.Header.Version != NFS_V3)
	}
	if state == "drain" {
		env.nfs.policyRWMu.Lock() // a policy update is in progress
	}
	reply, err := env.h.HandleCall(call, bytes.NewReader(body), &AuthContext{ClientIP: "127.0.0.1", ClientPort: 700, Credential: &call.Credential})
	vpAssert(err == nil, "answered")
	wire := vpEncodeReply(reply)
	vpAssert(wire != nil, "reply-encodes")
	rd := &vpRd{b: wire}
	h := vpRPCReplyHeader(rd)
	vpAssert(!rd.bad, "rpc-reply-header-well-formed")
	vpAssert(h.xid == xid, "xid-echoed")
	if !h.accepted || h.acceptStat != SUCCESS {
		vpReach("rpc-level-error")
		vpAssert(rd.done(), "no-bytes-after-rpc-error")
		return
	}
	if state == "drain" {
		vpKnown("K-C14-drain-reply-is-bare-status", true)
	}
	if proc > 21 {
		vpAssert(false, "unknown-procedure-not-accepted-as-success")
		return
	}
	st := vpNFSResult(rd, proc)
	vpAssert(!rd.bad, "result-decodes-as-RFC1813-type")
	vpAssert(rd.done(), "no-missing-or-trailing-bytes")
	vpKnownClear()
	if proc != NFSPROC3_NULL {
		vpKnown("K-C14-garbage-args-as-nfsstat", st == GARBAGE_ARGS)
		vpKnown("K-C14-delay-10013-not-nfsstat3", st == NFSERR_DELAY)
		vpAssert(vpInEnum(st, vpNfsstat3), "status-is-nfsstat3")
		vpKnownClear()
		if st == NFS_OK {
			vpReach("nfs-ok")
		} else {
			vpReach("nfs-error")
		}
	}
}

// VPH_C14_mount: MOUNT v1/v3 procedures.
func VPH_C14_mount() {
	env, state := vpC14Env()
	vpExhaustOpLimits(env)
	sel := vpChoose("proc", 0, 6)
	proc := uint32(sel)
	if sel == 6 {
		proc = vpU32("unknownproc")
		vpAssume(proc > 5)
	}
	var b vpBuf
	switch vpChoose("args", 0, 2) {
	case 0:
		if proc == 1 || proc == 3 {
			b.str([]string{"/", "/d", "/nonexistent", "relative"}[vpChoose("path", 0, 3)])
		}
	case 1:
		// truncated: nothing at all
	case 2:
		n := 4 * vpChoose("words", 0, 2)
		g := vpBytes("garbage", n)
		for w := 0; w+4 <= n; w += 4 {
			v := uint32(g[w])<<24 | uint32(g[w+1])<<16 | uint32(g[w+2])<<8 | uint32(g[w+3])
			vpAssume(vpOr(v <= 8, v > 8192))
		}
		b.raw(g)
	}
	xid := vpU32("xid")
	vers := []uint32{3, 1, 2}[vpChoose("version", 0, 2)]
	call := &RPCCall{Header: RPCMsgHeader{Xid: xid, MsgType: RPC_CALL, RPCVersion: 2, Program: MOUNT_PROGRAM, Version: vers, Procedure: proc},
		Credential: RPCCredential{Flavor: AUTH_NONE}}
	if state == "drain" {
		env.nfs.policyRWMu.Lock()
	}
	reply, err := env.h.HandleCall(call, bytes.NewReader(b.Bytes()), &AuthContext{ClientIP: "127.0.0.1", ClientPort: 700, Credential: &call.Credential})
	vpAssert(err == nil, "answered")
	wire := vpEncodeReply(reply)
	vpAssert(wire != nil, "reply-encodes")
	rd := &vpRd{b: wire}
	h := vpRPCReplyHeader(rd)
	vpAssert(!rd.bad, "rpc-reply-header-well-formed")
	vpAssert(h.xid == xid, "xid-echoed")
	if !h.accepted || h.acceptStat != SUCCESS {
		vpReach("rpc-level-error")
		vpAssert(rd.done(), "no-bytes-after-rpc-error")
		return
	}
	if state == "drain" {
		vpKnown("K-C14-drain-reply-is-bare-status", true)
	}
	vpAssert(proc <= 5, "unknown-procedure-not-accepted-as-success")
	if proc > 5 {
		return
	}
	st, has := vpMountResult(rd, proc)
	vpAssert(!rd.bad, "result-decodes-as-MOUNT-type")
	vpAssert(rd.done(), "no-missing-or-trailing-bytes")
	if has {
		vpAssert(vpInEnum(st, vpMountstat3), "status-is-mountstat3")
	}
}

// VPH_C14_rpc: unknown programs, and EncodeRPCReply on every reply/accept status.
func VPH_C14_rpc() {
	env, state := vpC14Env()
	xid := vpU32("xid")
	prog := vpU32("program")
	vpAssume(vpAnd(prog != NFS_PROGRAM, prog != MOUNT_PROGRAM))
	call := &RPCCall{Header: RPCMsgHeader{Xid: xid, MsgType: RPC_CALL, RPCVersion: 2, Program: prog, Version: vpU32("version"), Procedure: vpU32("proc")},
		Credential: RPCCredential{Flavor: AUTH_NONE}}
	if state == "drain" {
		env.nfs.policyRWMu.Lock()
	}
	reply, err := env.h.HandleCall(call, bytes.NewReader(vpBytes("body", 4*vpChoose("words", 0, 2))), &AuthContext{ClientIP: "127.0.0.1", ClientPort: 700, Credential: &call.Credential})
	vpAssert(err == nil, "answered")
	wire := vpEncodeReply(reply)
	rd := &vpRd{b: wire}
	h := vpRPCReplyHeader(rd)
	vpAssert(!rd.bad, "rpc-reply-header-well-formed")
	vpAssert(h.xid == xid, "xid-echoed")
	if state == "drain" {
		vpKnown("K-C14-drain-reply-is-bare-status", true)
	}
	vpAssert(vpAnd(h.accepted, h.acceptStat == PROG_UNAVAIL), "unknown-program-is-PROG_UNAVAIL")
	vpAssert(rd.done(), "no-bytes-after-rpc-error")
}

// VPH_C14_connection_rate_limited: calls refused by the rate limiter on a connection each get a
// well-formed MSG_DENIED reply that echoes the XID of *that* call (real connection loop, three calls
// with symbolic xids, per-address burst of one: the second and third are refused).
func VPH_C14_connection_rate_limited() {
	fs := vpStdTree()
	cfg := DefaultRateLimiterConfig()
	cfg.GlobalRequestsPerSecond = 1000
	cfg.PerIPRequestsPerSecond, cfg.PerIPBurstSize = 1, 1
	cfg.PerConnectionRequestsPerSecond, cfg.PerConnectionBurstSize = 1000, 1000
	env := vpServer(fs, ExportOptions{EnableRateLimiting: true, RateLimitConfig: &cfg})
	env.srv.options.UseRecordMarking = true
	vpSetClock(1_000_000_000)
	xids := []uint32{vpU32("xid1"), vpU32("xid2"), vpU32("xid3")}
	var in []byte
	for _, x := range xids {
		in = append(in, vpClientCall(x, NFS_PROGRAM, NFS_V3, NFSPROC3_NULL, nil)...)
	}
	conn := &vpConn{in: in, remote: "10.0.0.5:800"}
	env.srv.handleConnectionWithRecordMarking(conn, env.h)
	_, out := conn.served()
	replies, ok := vpSplitRecords(out)
	vpAssert(vpAnd(ok, len(replies) == 3), "every-call-answered")
	denied := 0
	for k, rep := range replies {
		rd := &vpRd{b: rep}
		h := vpRPCReplyHeader(rd)
		vpAssert(!rd.bad, "reply-header-well-formed")
		vpAssert(rd.done(), "no-trailing-bytes")
		if k < len(xids) {
			vpAssert(h.xid == xids[k], "each-reply-echoes-its-own-xid")
		}
		if !h.accepted {
			denied++
		}
	}
	vpAssert(denied == 2, "burst-of-one-admits-one")
	vpReach("rate-limited-replies")
}
