package absnfs

// C12 — ACCESS decisions follow UNIX permission rules and never over-grant.

func init() {
	vpRegister("VPH_C12_access", VPH_C12_access)
}

func VPH_C12_access() {
	naux := 2
	if vpTier() == 1 {
		naux = 16
	}
	fs := vpNewFS()
	n := fs.addFile("/f", 10)
	isDir := vpBool("isdir")
	if isDir {
		n.kind = vpKDir
		vpReach("dir")
	} else {
		vpReach("file")
	}
	perm := vpU32("perm") & 07777
	n.perm = perm
	ro := vpBool("ro")
	env := vpServer(fs, ExportOptions{ReadOnly: ro})
	h := env.handleFor("/f")
	node, ok := env.h.lookupNode(h)
	vpAssume(ok)
	fuid, fgid := vpU32("fuid"), vpU32("fgid")
	node.attrs.Uid, node.attrs.Gid = fuid, fgid
	env.clearCaches()

	euid, egid := vpU32("euid"), vpU32("egid")
	env.auth.EffectiveUID, env.auth.EffectiveGID = euid, egid
	aux := make([]uint32, naux)
	inGroup := egid == fgid
	for i := range aux {
		aux[i] = vpU32("aux")
		inGroup = vpOr(inGroup, aux[i] == fgid)
	}
	env.auth.AuthSys = &AuthSysCredential{UID: euid, GID: egid, AuxGIDs: aux}
	mask := vpU32("mask")

	var b vpBuf
	b.fh(h).u32(mask)
	reply := env.call(NFSPROC3_ACCESS, b.Bytes())
	vpAssert(reply != nil, "reply")
	rd := &vpRd{b: vpReplyBytes(reply)}
	status := rd.u32()
	vpAssert(status == NFS_OK, "status-ok")
	attr, follows := rd.postOp()
	vpAssert(follows, "attrs-follow")
	granted := rd.u32()
	vpAssert(rd.done(), "reply-consumed")

	// reference, written from the statement
	class := vpIteU32(euid == fuid, (perm>>6)&7, vpIteU32(inGroup, (perm>>3)&7, perm&7))
	class = vpIteU32(euid == 0, 7, class)
	r, w, x := class&4 != 0, class&2 != 0, class&1 != 0
	var want uint32
	want |= vpIteU32(r, ACCESS3_READ, 0)
	want |= vpIteU32(vpAnd(isDir, x), ACCESS3_LOOKUP, 0)
	want |= vpIteU32(x, ACCESS3_EXECUTE, 0)
	want |= vpIteU32(vpAnd(w, !ro), ACCESS3_MODIFY|ACCESS3_EXTEND, 0)
	want |= vpIteU32(vpAnd(vpAnd(w, !ro), isDir), ACCESS3_DELETE, 0)
	want &= mask
	vpObserve("granted", granted)
	vpObserve("want", want)
	vpAssert(granted&^mask == 0, "subset-of-requested")
	vpAssert(granted == want, "granted-equals-unix-rule")
	vpAssert(vpImplies(ro, granted&(ACCESS3_MODIFY|ACCESS3_EXTEND|ACCESS3_DELETE) == 0), "readonly-never-grants-write")
	// the attributes in the same reply describe the same object
	vpAssert(attr.mode&0777 == perm&0777, "reply-mode")
	vpAssert(attr.uid == fuid, "reply-uid")
}
