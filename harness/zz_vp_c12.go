package absnfs

// C12 — ACCESS decisions follow UNIX permission rules and never over-grant.

import (
	"bytes"
	"os"
)

func init() {
	vpRegister("VPH_C12_access", VPH_C12_access)
	vpRegister("VPH_C12_connection", VPH_C12_connection)
	vpRegister("VPH_C12_access_as_sent", VPH_C12_access_as_sent)
	vpRegister("VPH_C12_auth_none", VPH_C12_auth_none)
	vpRegister("VPH_C12_recreated", VPH_C12_recreated)
}

func VPH_C12_access() {
	naux := 2
	if vpTier() == 1 {
		naux = 16
	}
	fs := vpNewFS()
	n := fs.addFile("/f", 10)
	isDir := vpBool("isdir")
	if isDir {
		n.kind = vpKDir
		vpReach("dir")
	} else {
		vpReach("file")
	}
	perm := vpU32("perm") & 07777
	n.perm = perm
	ro := vpBool("ro")
	env := vpServer(fs, ExportOptions{ReadOnly: ro})
	h := env.handleFor("/f")
	node, ok := env.h.lookupNode(h)
	vpAssume(ok)
	fuid, fgid := vpU32("fuid"), vpU32("fgid")
	node.attrs.Uid, node.attrs.Gid = fuid, fgid
	env.clearCaches()

	euid, egid := vpU32("euid"), vpU32("egid")
	env.auth.EffectiveUID, env.auth.EffectiveGID = euid, egid
	aux := make([]uint32, naux)
	inGroup := egid == fgid
	for i := range aux {
		aux[i] = vpU32("aux")
		inGroup = vpOr(inGroup, aux[i] == fgid)
	}
	env.auth.AuthSys = &AuthSysCredential{UID: euid, GID: egid, AuxGIDs: aux}
	mask := vpU32("mask")

	var b vpBuf
	b.fh(h).u32(mask)
	reply := env.call(NFSPROC3_ACCESS, b.Bytes())
	vpAssert(reply != nil, "reply")
	rd := &vpRd{b: vpReplyBytes(reply)}
	status := rd.u32()
	vpAssert(status == NFS_OK, "status-ok")
	attr, follows := rd.postOp()
	vpAssert(follows, "attrs-follow")
	granted := rd.u32()
	vpAssert(rd.done(), "reply-consumed")

	// reference, written from the statement
	class := vpIteU32(euid == fuid, (perm>>6)&7, vpIteU32(inGroup, (perm>>3)&7, perm&7))
	class = vpIteU32(euid == 0, 7, class)
	r, w, x := class&4 != 0, class&2 != 0, class&1 != 0
	var want uint32
	want |= vpIteU32(r, ACCESS3_READ, 0)
	want |= vpIteU32(vpAnd(isDir, x), ACCESS3_LOOKUP, 0)
	want |= vpIteU32(x, ACCESS3_EXECUTE, 0)
	want |= vpIteU32(vpAnd(w, !ro), ACCESS3_MODIFY|ACCESS3_EXTEND, 0)
	want |= vpIteU32(vpAnd(vpAnd(w, !ro), isDir), ACCESS3_DELETE, 0)
	want &= mask
	vpObserve("granted", granted)
	vpObserve("want", want)
	vpAssert(granted&^mask == 0, "subset-of-requested")
	vpAssert(granted == want, "granted-equals-unix-rule")
	vpAssert(vpImplies(ro, granted&(ACCESS3_MODIFY|ACCESS3_EXTEND|ACCESS3_DELETE) == 0), "readonly-never-grants-write")
	// the attributes in the same reply describe the same object
	vpAssert(attr.mode&0777 == perm&0777, "reply-mode")
	vpAssert(attr.uid == fuid, "reply-uid")
}

// VPH_C12_access_as_sent: the same decision for a caller as it arrives on the wire, through the real
// HandleCall: the effective identity is what the real authentication path computes under squash none /
// root / all (the root override and the class selection use the *effective* ids), and the handle's
// node may still describe an earlier object of the other type at this path.
func VPH_C12_access_as_sent() {
	naux := 1
	if vpTier() == 1 {
		naux = 2
	}
	fs := vpNewFS()
	n := fs.addFile("/f", 10)
	isDir := vpBool("isdir")
	if isDir {
		n.kind = vpKDir
		vpReach("dir")
	} else {
		vpReach("file")
	}
	perm := vpU32("perm") & 07777
	n.perm = perm
	ro := vpBool("ro")
	env := vpServer(fs, ExportOptions{ReadOnly: ro})
	h := env.handleFor("/f")
	node, ok := env.h.lookupNode(h)
	vpAssume(ok)
	fuid, fgid := vpU32("fuid"), vpU32("fgid")
	node.attrs.Uid, node.attrs.Gid = fuid, fgid
	env.clearCaches()

	// The caller: the identity it sends on the wire (AUTH_SYS uid, gid, auxiliary gids) and the
	// export's squash mode; the decision is made for the *effective* identity, which the real
	// authentication path computes (the request goes through HandleCall) and which the reference
	// below derives from C10's statement.
	wuid, wgid := vpU32("euid"), vpU32("egid")
	waux := make([]uint32, naux)
	for i := range waux {
		waux[i] = vpU32("aux")
	}
	squash := []string{"none", "root", "all"}[vpChoose("squash", 0, 2)]
	if squash != "none" {
		pol := *env.nfs.policy.Load()
		pol.Squash = squash
		env.nfs.policy.Store(&pol) // Squash cannot be changed through the update API; the export is "built" with it
	}
	euid, egid := wuid, wgid
	aux := append([]uint32(nil), waux...)
	switch squash {
	case "all":
		euid, egid = 65534, 65534
		for i := range aux {
			aux[i] = 65534
		}
	case "root":
		euid = vpIteU32(wuid == 0, 65534, wuid)
		egid = vpIteU32(vpOr(wuid == 0, wgid == 0), 65534, wgid)
		for i := range aux {
			aux[i] = vpIteU32(waux[i] == 0, 65534, waux[i])
		}
	}
	inGroup := egid == fgid
	for i := range aux {
		inGroup = vpOr(inGroup, aux[i] == fgid)
	}
	// the handle's node may still describe an earlier object at this path (RMDIR d, RENAME f -> d:
	// the handle of d is now a file's): the decision follows what the object is now
	staleNode := false
	if squash == "none" {
		staleNode = vpBool("handle-node-has-the-other-type")
	}
	if staleNode {
		vpReach("stale-node-type")
		node.attrs.Mode ^= os.ModeDir
	}
	mask := vpU32("mask")

	var b vpBuf
	b.fh(h).u32(mask)
	call := &RPCCall{Header: RPCMsgHeader{Xid: 5, MsgType: RPC_CALL, RPCVersion: 2, Program: NFS_PROGRAM, Version: NFS_V3, Procedure: NFSPROC3_ACCESS},
		Credential: RPCCredential{Flavor: AUTH_SYS, Body: vpAuthSysBody(1, "h", wuid, wgid, waux)}}
	reply, herr := env.h.HandleCall(call, bytes.NewReader(b.Bytes()), &AuthContext{ClientIP: "127.0.0.1", ClientPort: 700, Credential: &call.Credential})
	vpAssert(vpAnd(herr == nil, reply != nil), "reply")
	vpAssert(reply.Status == MSG_ACCEPTED, "caller-admitted")
	rd := &vpRd{b: vpReplyBytes(reply)}
	status := rd.u32()
	if staleNode && status != NFS_OK {
		return // refusing a handle whose object was replaced (NFS3ERR_STALE) is fine
	}
	vpAssert(status == NFS_OK, "status-ok")
	attr, follows := rd.postOp()
	vpAssert(follows, "attrs-follow")
	granted := rd.u32()
	vpAssert(rd.done(), "reply-consumed")

	// reference, written from the statement
	class := vpIteU32(euid == fuid, (perm>>6)&7, vpIteU32(inGroup, (perm>>3)&7, perm&7))
	class = vpIteU32(euid == 0, 7, class)
	r, w, x := class&4 != 0, class&2 != 0, class&1 != 0
	var want uint32
	want |= vpIteU32(r, ACCESS3_READ, 0)
	want |= vpIteU32(vpAnd(isDir, x), ACCESS3_LOOKUP, 0)
	want |= vpIteU32(x, ACCESS3_EXECUTE, 0)
	want |= vpIteU32(vpAnd(w, !ro), ACCESS3_MODIFY|ACCESS3_EXTEND, 0)
	want |= vpIteU32(vpAnd(vpAnd(w, !ro), isDir), ACCESS3_DELETE, 0)
	want &= mask
	vpObserve("granted", granted)
	vpObserve("want", want)
	vpAssert(granted&^mask == 0, "subset-of-requested")
	vpAssert(granted == want, "granted-equals-unix-rule")
	vpAssert(vpImplies(ro, granted&(ACCESS3_MODIFY|ACCESS3_EXTEND|ACCESS3_DELETE) == 0), "readonly-never-grants-write")
	// the attributes in the same reply describe the same object
	vpAssert(attr.mode&0777 == perm&0777, "reply-mode")
	vpAssert(attr.uid == fuid, "reply-uid")
}

// VPH_C12_connection: ACCESS from two different AUTH_SYS identities on one record-marking
// connection (real connection loop): root first, then an arbitrary non-root caller who is neither the
// owner nor in the group - the second answer is computed for the second caller (the "other" class),
// not for whoever spoke first on the connection.
func VPH_C12_connection() {
	fs := vpNewFS()
	n := fs.addFile("/f", 10)
	perm := vpU32("perm") & 0777
	n.perm = perm
	env := vpServer(fs, ExportOptions{Squash: "none"})
	h := env.handleFor("/f")
	env.srv.options.UseRecordMarking = true
	uid2, gid2 := vpU32("uid2"), vpU32("gid2")
	vpAssume(vpAnd(uid2 != 0, gid2 != 0)) // the file belongs to 0:0
	mask := vpU32("mask")
	var in []byte
	for k := 0; k < 2; k++ {
		var b vpBuf
		u, g := uint32(0), uint32(0)
		if k == 1 {
			u, g = uid2, gid2
		}
		b.u32(uint32(200+k)).u32(RPC_CALL).u32(2).u32(NFS_PROGRAM).u32(NFS_V3).u32(NFSPROC3_ACCESS)
		b.u32(AUTH_SYS).opaque(vpAuthSysBody(7, "h", u, g, nil)).u32(AUTH_NONE).u32(0)
		b.fh(h).u32(mask)
		in = append(in, vpFrame(b.Bytes())...)
	}
	conn := &vpConn{in: in, remote: "10.0.0.5:800"}
	env.srv.handleConnectionWithRecordMarking(conn, env.h)
	replies, ok := vpSplitRecords(conn.out)
	vpAssert(vpAnd(ok, len(replies) == 2), "both-calls-answered")
	if len(replies) != 2 {
		return
	}
	rd := &vpRd{b: replies[1]}
	hdr := vpRPCReplyHeader(rd)
	vpAssert(vpAnd(hdr.accepted, hdr.acceptStat == SUCCESS), "second-call-accepted")
	vpAssert(rd.u32() == NFS_OK, "second-access-ok")
	rd.postOp()
	granted := rd.u32()
	o := perm & 7
	var want uint32
	want |= vpIteU32(o&4 != 0, ACCESS3_READ, 0)
	want |= vpIteU32(o&1 != 0, ACCESS3_EXECUTE, 0)
	want |= vpIteU32(o&2 != 0, ACCESS3_MODIFY|ACCESS3_EXTEND, 0)
	want &= mask
	vpAssert(granted == want, "second-caller-judged-as-itself")
}

// vpAccessWant: the bits the statement's UNIX rule grants (before the export's read-only cut is
// applied by the caller of this helper: ro is passed in).
func vpAccessWant(euid uint32, isOwner, inGroup bool, perm uint32, isDir, ro bool, mask uint32) uint32 {
	class := vpIteU32(isOwner, (perm>>6)&7, vpIteU32(inGroup, (perm>>3)&7, perm&7))
	class = vpIteU32(euid == 0, 7, class)
	r, w, x := class&4 != 0, class&2 != 0, class&1 != 0
	var want uint32
	want |= vpIteU32(r, ACCESS3_READ, 0)
	want |= vpIteU32(vpAnd(isDir, x), ACCESS3_LOOKUP, 0)
	want |= vpIteU32(x, ACCESS3_EXECUTE, 0)
	want |= vpIteU32(vpAnd(w, !ro), ACCESS3_MODIFY|ACCESS3_EXTEND, 0)
	want |= vpIteU32(vpAnd(vpAnd(w, !ro), isDir), ACCESS3_DELETE, 0)
	return want & mask
}

// vpCallAs sends one NFS call through HandleCall under the given credential.
func vpCallAs(env *vpEnv, proc uint32, cred RPCCredential, args []byte) *RPCReply {
	call := &RPCCall{Header: RPCMsgHeader{Xid: 5, MsgType: RPC_CALL, RPCVersion: 2, Program: NFS_PROGRAM, Version: NFS_V3, Procedure: proc}, Credential: cred}
	reply, herr := env.h.HandleCall(call, bytes.NewReader(args), &AuthContext{ClientIP: "127.0.0.1", ClientPort: 700, Credential: &call.Credential})
	vpAssert(vpAnd(herr == nil, reply != nil), "reply")
	return reply
}

// VPH_C12_auth_none: a caller that sends AUTH_NONE is nobody (65534/65534, no auxiliary groups)
// under every squash mode; ACCESS through the real HandleCall decides for that identity.
func VPH_C12_auth_none() {
	fs := vpNewFS()
	n := fs.addFile("/f", 10)
	isDir := vpBool("isdir")
	if isDir {
		n.kind = vpKDir
	}
	perm := vpU32("perm") & 07777
	n.perm = perm
	ro := vpBool("ro")
	env := vpServer(fs, ExportOptions{ReadOnly: ro, Squash: []string{"none", "root", "all", ""}[vpChoose("squash", 0, 3)]})
	h := env.handleFor("/f")
	node, ok := env.h.lookupNode(h)
	vpAssume(ok)
	fuid, fgid := vpU32("fuid"), vpU32("fgid")
	node.attrs.Uid, node.attrs.Gid = fuid, fgid
	env.clearCaches()
	mask := vpU32("mask")
	var b vpBuf
	reply := vpCallAs(env, NFSPROC3_ACCESS, RPCCredential{Flavor: AUTH_NONE, Body: []byte{}}, b.fh(h).u32(mask).Bytes())
	vpAssert(reply.Status == MSG_ACCEPTED, "caller-admitted")
	rd := &vpRd{b: vpReplyBytes(reply)}
	vpAssert(rd.u32() == NFS_OK, "status-ok")
	_, follows := rd.postOp()
	vpAssert(follows, "attrs-follow")
	granted := rd.u32()
	want := vpAccessWant(65534, fuid == 65534, fgid == 65534, perm, isDir, ro, mask)
	vpObserve("granted", granted)
	vpObserve("want", want)
	vpAssert(granted == want, "auth-none-is-judged-as-nobody")
}

// VPH_C12_recreated: the object was removed and made again (by another caller) since its handle
// was first issued: ACCESS is decided against the object that is there now - the owner and group
// the CREATE reply reported for it, the mode the backend has - whichever of the two handles (the
// old one or the one CREATE returned) the caller presents, not against the removed object's owner.
func VPH_C12_recreated() {
	fs := vpNewFS()
	fs.addDir("/d")
	fs.addFile("/d/f", 10).perm = 0600
	env := vpServer(fs, ExportOptions{})
	hd := env.handleFor("/d")
	hOld := env.handleFor("/d/f")
	node, ok := env.h.lookupNode(hOld)
	vpAssume(ok)
	ouid, ogid := vpU32("old-uid"), vpU32("old-gid")
	node.attrs.Uid, node.attrs.Gid = ouid, ogid
	root := RPCCredential{Flavor: AUTH_SYS, Body: vpAuthSysBody(1, "h", 0, 0, nil)}
	var r vpBuf
	rr := &vpRd{b: vpReplyBytes(vpCallAs(env, NFSPROC3_REMOVE, root, r.fh(hd).str("f").Bytes()))}
	vpAssert(rr.u32() == NFS_OK, "removed")
	// made again by somebody else, with a mode of their choosing
	cuid, cgid := vpU32("creator-uid"), vpU32("creator-gid")
	vpAssume(cuid != 0)
	perm := vpU32("perm") & 0777
	var c vpBuf
	cr := &vpRd{b: vpReplyBytes(vpCallAs(env, NFSPROC3_CREATE, RPCCredential{Flavor: AUTH_SYS, Body: vpAuthSysBody(1, "h", cuid, cgid, nil)},
		c.fh(hd).str("f").u32(0).sattr(&vpSattr{setMode: true, mode: perm}).Bytes()))}
	vpAssume(cr.u32() == NFS_OK) // whether this caller may create in /d is not the subject
	vpAssert(cr.u32() == 1, "handle-follows")
	hNew := (&vpRd{b: cr.opaque()}).u64()
	made, described := cr.postOp() // the new object as the server describes it to the creator
	vpAssert(described, "new-object-attributes-follow")
	h := hNew
	if vpBool("present-the-old-handle") {
		h = hOld
	}
	wuid, wgid := vpU32("euid"), vpU32("egid")
	mask := vpU32("mask")
	var b vpBuf
	reply := vpCallAs(env, NFSPROC3_ACCESS, RPCCredential{Flavor: AUTH_SYS, Body: vpAuthSysBody(1, "h", wuid, wgid, nil)}, b.fh(h).u32(mask).Bytes())
	rd := &vpRd{b: vpReplyBytes(reply)}
	st := rd.u32()
	if h == hOld && hOld != hNew && st != NFS_OK {
		return // refusing the handle of the removed object is fine
	}
	vpAssert(st == NFS_OK, "status-ok")
	pa, follows := rd.postOp()
	vpAssert(follows, "attrs-follow")
	granted := rd.u32()
	vpReach("answered")
	vpAssert(vpAnd(pa.uid == made.uid, pa.gid == made.gid), "same-owner-as-the-create-reply-said")
	want := vpAccessWant(wuid, wuid == made.uid, wgid == made.gid, fs.nodes["/d/f"].perm, false, false, mask)
	vpObserve("granted", granted)
	vpObserve("want", want)
	vpAssert(granted == want, "decided-against-the-object-there-now")
}
