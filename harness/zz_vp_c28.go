package absnfs

// C28 — every documented way of starting a server speaks standard ONC RPC over TCP
// (record marking). The listener is the one piece replaced: net.Listen is redirected to
// vpNetListen (by the engine, and textually in the native replay build), which hands the
// real accept loop a stub listener whose first connection carries a record-marked call from a
// conformant client. Everything from Export / Listen / StartWithPortmapper down to the reply bytes
// is the real code.

import (
	"crypto/tls"
	"errors"
	"net"
	"sync"
	"syscall"
	"time"
)

func init() {
	vpRegister("VPH_C28_start", VPH_C28_start)
	vpRegister("VPH_C28_reply_sizes", VPH_C28_reply_sizes)
}

type vpListener struct {
	mu       sync.Mutex
	addr     string
	conns    []*vpConn
	next     int
	done     chan struct{}
	shut     bool
	failNext int // this many Accept calls fail with a transient error first (EMFILE: out of descriptors)
}

func (l *vpListener) Accept() (net.Conn, error) {
	l.mu.Lock()
	if l.failNext > 0 && !l.shut {
		l.failNext--
		l.mu.Unlock()
		return nil, &net.OpError{Op: "accept", Net: "tcp", Err: syscall.EMFILE}
	}
	if l.next < len(l.conns) && !l.shut {
		c := l.conns[l.next]
		l.next++
		l.mu.Unlock()
		return c, nil
	}
	l.mu.Unlock()
	<-l.done // no further client: wait for Close
	return nil, errors.New("use of closed network connection")
}

func (l *vpListener) Close() error {
	l.mu.Lock()
	defer l.mu.Unlock()
	if !l.shut {
		l.shut = true
		close(l.done)
	}
	return nil
}

func (l *vpListener) Addr() net.Addr { return vpAddr{l.addr} }

// vpListeners: what the next net.Listen calls return, keyed by the address asked for ("" = any).
var vpListeners map[string]*vpListener

// vpNetListen stands in for net.Listen in the code under test.
func vpNetListen(network, addr string) (net.Listener, error) {
	if vpListeners != nil {
		if l, ok := vpListeners[addr]; ok {
			return l, nil
		}
		if l, ok := vpListeners[""]; ok {
			return l, nil
		}
	}
	return net.Listen(network, addr)
}

// vpClientCall: the bytes a conformant ONC RPC client puts on a TCP connection for one call:
// a single last-fragment record holding the call header (AUTH_NONE) and the arguments.
func vpClientCall(xid, prog, vers, proc uint32, args []byte) []byte {
	return vpFrame(vpClientCallBytes(xid, prog, vers, proc, args))
}

func vpClientCallBytes(xid, prog, vers, proc uint32, args []byte) []byte {
	var b vpBuf
	b.u32(xid).u32(RPC_CALL).u32(2).u32(prog).u32(vers).u32(proc)
	b.u32(AUTH_NONE).u32(0).u32(AUTH_NONE).u32(0).raw(args)
	return b.Bytes()
}

// vpFrameSplit sends one record as two fragments cut at byte n (a client may fragment a record
// wherever it likes; only the last fragment carries the flag).
func vpFrameSplit(payload []byte, n int) []byte {
	var b vpBuf
	b.u32(uint32(n)).raw(payload[:n])
	b.u32(uint32(len(payload)-n) | LastFragmentFlag).raw(payload[n:])
	return b.Bytes()
}

// VPH_C28_start: a server started through AbsfsNFS.Export, through Server.Listen with record marking,
// or through StartWithPortmapper answers a record-marked NULL, MNT and GETATTR of the mounted handle
// from a conformant client with record-marked replies carrying the calls' xids.
func VPH_C28_start() {
	fs := vpStdTree()
	env := vpServer(fs, ExportOptions{})
	x1, x2, x3 := vpU32("xid1"), vpU32("xid2"), vpU32("xid3")
	rootHandle := env.handleFor("/")
	var g vpBuf
	g.fh(rootHandle)
	var m vpBuf
	m.str("/")
	var in []byte
	in = append(in, vpClientCall(x1, NFS_PROGRAM, NFS_V3, NFSPROC3_NULL, nil)...)
	// the MNT call possibly in two fragments (header | arguments, or cut inside the header)
	mnt := vpClientCallBytes(x2, MOUNT_PROGRAM, 3, 1, m.Bytes())
	switch vpChoose("mnt-fragmentation", 0, 3) {
	case 0:
		in = append(in, vpFrame(mnt)...)
	case 1:
		vpReach("fragmented-call")
		in = append(in, vpFrameSplit(mnt, 40)...)
	case 2:
		in = append(in, vpFrameSplit(mnt, 6)...)
	case 3:
		in = append(in, vpFrameSplit(mnt, len(mnt))...) // everything in a non-last fragment, then an empty last one
	}
	in = append(in, vpClientCall(x3, NFS_PROGRAM, NFS_V3, NFSPROC3_GETATTR, g.Bytes())...)
	conn := &vpConn{in: in, remote: "127.0.0.1:800"}
	if vpBool("small-tcp-segments") {
		conn.seg = 5 // the calls arrive 5 bytes at a time: headers and bodies split across reads
		vpReach("small-tcp-segments")
	}
	l := &vpListener{addr: "127.0.0.1:2049", conns: []*vpConn{conn}, done: make(chan struct{})}
	if vpBool("transient-accept-failure") {
		vpReach("transient-accept-failure")
		l.failNext = 2 // the descriptor table was full for a moment while the client connected
	}
	pml := &vpListener{addr: ":111", done: make(chan struct{})}
	vpListeners = map[string]*vpListener{"": l, ":111": pml}
	defer func() { vpListeners = nil }()

	port := []int{0, 2049}[vpChoose("port", 0, 1)]
	debug := vpBool("debug")
	var srv *Server
	switch vpChoose("start", 0, 2) {
	case 0:
		vpReach("export")
		vpAssert(env.nfs.Export("/", port) == nil, "export-starts")
		srv = env.nfs.exportServer
	case 1:
		vpReach("listen-with-record-marking")
		s, err := NewServer(ServerOptions{Name: "vp", Port: port, Hostname: "localhost", Debug: debug, UseRecordMarking: true})
		vpAssert(err == nil, "server-created")
		s.SetHandler(env.nfs)
		vpAssert(s.Listen() == nil, "listen-starts")
		srv = s
	default:
		vpReach("start-with-portmapper")
		s, err := NewServer(ServerOptions{Name: "vp", Port: port, Hostname: "localhost", Debug: debug})
		vpAssert(err == nil, "server-created")
		s.SetHandler(env.nfs)
		vpAssert(s.StartWithPortmapper() == nil, "start-with-portmapper-starts")
		srv = s
	}
	_ = srv
	// the accept loop takes the connection and serves it to the end of the client's stream, after
	// which the server closes it (in the engine that has happened by now: goroutines run eagerly; the
	// native build waits for it)
	var closed bool
	var out []byte
	for i := 0; i < 500; i++ {
		if closed, out = conn.served(); closed {
			break
		}
		time.Sleep(10 * time.Millisecond)
	}
	vpAssert(closed, "connection-accepted-and-served")
	replies, ok := vpSplitRecords(out)
	vpAssert(ok, "replies-are-record-marked")
	vpAssert(len(replies) == 3, "every-call-answered")
	for k, want := range []uint32{x1, x2, x3} {
		if k >= len(replies) {
			break
		}
		rd := &vpRd{b: replies[k]}
		h := vpRPCReplyHeader(rd)
		vpAssert(!rd.bad, "reply-header-well-formed")
		vpAssert(h.xid == want, "reply-carries-the-calls-xid")
		vpAssert(vpAnd(h.accepted, h.acceptStat == SUCCESS), "call-accepted")
		switch k {
		case 0:
			vpAssert(rd.done(), "null-has-no-result")
		case 1:
			vpAssert(rd.u32() == 0, "mnt-ok")
			vpAssert(len(rd.opaque()) == 8, "mnt-returns-a-handle")
		case 2:
			vpAssert(rd.u32() == NFS_OK, "getattr-ok")
		}
	}
	l.Close()
	pml.Close()
}

// vpTLSListen stands in for tls.Listen in the code under test: it records the configuration the
// server built for its listener (C30) and hands out the stub listener for the address.
var vpTLSListenConfigs []*tls.Config

func vpTLSListen(network, addr string, cfg *tls.Config) (net.Listener, error) {
	if vpListeners != nil {
		vpTLSListenConfigs = append(vpTLSListenConfigs, cfg)
		if l, ok := vpListeners[addr]; ok {
			return l, nil
		}
		if l, ok := vpListeners[""]; ok {
			return l, nil
		}
	}
	return tls.Listen(network, addr, cfg)
}

// VPH_C28_reply_sizes: a conformant client's READ of every count from 0 to 560 bytes (so that the
// record-marked reply takes every length around 512 and beyond) is answered with a complete,
// well-formed record carrying exactly the bytes asked for. The connection is served by the same
// loop every started server uses (handleConnectionWithRecordMarking), entered directly.
func VPH_C28_reply_sizes() {
	fs := vpNewFS()
	fs.addDir("/d")
	data := make([]byte, 700)
	for i := range data {
		data[i] = byte(i*7 + 1)
	}
	fs.addFileData("/d/x", data)
	env := vpServer(fs, ExportOptions{})
	env.srv.options.UseRecordMarking = true
	h := env.handleFor("/d/x")
	count := vpChoose("count", 0, 560)
	xid := vpU32("xid")
	var a vpBuf
	a.fh(h).u64(0).u32(uint32(count))
	conn := &vpConn{in: vpClientCall(xid, NFS_PROGRAM, NFS_V3, NFSPROC3_READ, a.Bytes()), remote: "127.0.0.1:800"}
	env.srv.handleConnectionWithRecordMarking(conn, env.h)
	replies, ok := vpSplitRecords(conn.out)
	vpAssert(vpAnd(ok, len(replies) == 1), "one-complete-record-marked-reply")
	if !ok || len(replies) != 1 {
		return
	}
	rd := &vpRd{b: replies[0]}
	hd := vpRPCReplyHeader(rd)
	vpAssert(vpAnd(!rd.bad, hd.xid == xid), "reply-carries-the-calls-xid")
	vpAssert(rd.u32() == NFS_OK, "read-ok")
	rd.postOp()
	vpAssert(rd.u32() == uint32(count), "count-as-asked")
	rd.u32() // eof
	got := rd.opaque()
	vpAssert(vpAnd(!rd.bad, rd.done()), "reply-complete")
	vpAssert(string(got) == string(data[:count]), "data-as-stored")
}
