package absnfs

// C21 — attribute and directory caches behave as bounded TTL LRU maps (sequential part).

import (
	"container/list"
	"os"
	"time"
)

func init() {
	vpRegister("VPH_C21_attrcache_step", VPH_C21_attrcache_step)
	vpRegister("VPH_C21_dircache_step", VPH_C21_dircache_step)
	vpRegister("VPH_C21_ischildof", VPH_C21_ischildof)
}

// ---- reference model, written from the statement

type vpMEntry struct {
	key    string
	neg    bool
	size   int64 // the value (one attribute field stands for the whole record; the others are copied alike)
	uid    uint32
	expire int64
}

type vpMCache struct {
	e      []vpMEntry // front = most recently used
	cap    int
	ttl    int64
	negTTL int64
	negOn  bool
}

func (m *vpMCache) find(k string) int {
	for i := range m.e {
		if m.e[i].key == k {
			return i
		}
	}
	return -1
}

func (m *vpMCache) remove(i int) { m.e = append(m.e[:i:i], m.e[i+1:]...) }

func (m *vpMCache) toFront(i int) {
	x := m.e[i]
	m.remove(i)
	m.e = append([]vpMEntry{x}, m.e...)
}

func (m *vpMCache) get(k string, now int64) (hit bool, neg bool, size int64, uid uint32) {
	i := m.find(k)
	if i < 0 {
		return
	}
	x := m.e[i]
	if now < x.expire {
		m.toFront(i)
		return true, x.neg, x.size, x.uid
	}
	m.remove(i) // expired: nothing is returned and the entry goes away
	return
}

func (m *vpMCache) put(x vpMEntry) {
	if i := m.find(x.key); i >= 0 {
		m.remove(i)
	} else if len(m.e) >= m.cap && len(m.e) > 0 {
		m.remove(len(m.e) - 1) // evict the least recently used
	}
	m.e = append([]vpMEntry{x}, m.e...)
}

func vpDirectChild(p, dir string) bool {
	var rest string
	if dir == "/" {
		if len(p) < 2 || p[0] != '/' {
			return false
		}
		rest = p[1:]
	} else {
		if len(p) <= len(dir)+1 || p[:len(dir)] != dir || p[len(dir)] != '/' {
			return false
		}
		rest = p[len(dir)+1:]
	}
	for i := 0; i < len(rest); i++ {
		if rest[i] == '/' {
			return false
		}
	}
	return len(rest) > 0
}

var vpCacheKeys = []string{"/a", "/d/b", "/d/c", "/d/e/f"}

// vpPickKeys chooses n distinct keys in a symbolic order.
func vpPickKeys(n int) []string {
	rest := append([]string(nil), vpCacheKeys...)
	var out []string
	for i := 0; i < n; i++ {
		j := vpChoose("pick", 0, len(rest)-1)
		out = append(out, rest[j])
		rest = append(rest[:j:j], rest[j+1:]...)
	}
	return out
}

var vpPerms4 = [][]int{
	{0, 1, 2, 3}, {0, 1, 3, 2}, {0, 2, 1, 3}, {0, 2, 3, 1}, {0, 3, 1, 2}, {0, 3, 2, 1},
	{1, 0, 2, 3}, {1, 0, 3, 2}, {1, 2, 0, 3}, {1, 2, 3, 0}, {1, 3, 0, 2}, {1, 3, 2, 0},
	{2, 0, 1, 3}, {2, 0, 3, 1}, {2, 1, 0, 3}, {2, 1, 3, 0}, {2, 3, 0, 1}, {2, 3, 1, 0},
	{3, 0, 1, 2}, {3, 0, 2, 1}, {3, 1, 0, 2}, {3, 1, 2, 0}, {3, 2, 0, 1}, {3, 2, 1, 0},
}

// VPH_C21_attrcache_step: from an arbitrary valid cache state (up to 3 entries in any
// LRU order, symbolic values, expiry instants and negative flags, capacity 1..3), one
// operation with symbolic arguments, optionally followed by a Put of a fresh key (which
// exposes the LRU order through eviction), then every key is probed: the real cache
// and the reference model answer alike; the size bound holds; returned attributes are copies.
func VPH_C21_attrcache_step() {
	maxCap := 2
	if vpTier() == 1 {
		maxCap = 3
	}
	capN := vpChoose("cap", 1, maxCap)
	n := vpChoose("n", 0, capN)
	keys := vpPickKeys(n)
	ttl, negTTL := vpI64("ttl"), vpI64("negttl")
	vpAssume(vpAnd(ttl > 0, ttl < 1<<40))
	vpAssume(vpAnd(negTTL > 0, negTTL < 1<<40))
	negOn := vpBool("negative-enabled")
	now := vpI64("now")
	vpAssume(vpAnd(now >= 0, now < 1<<50))

	c := &AttrCache{cache: map[string]*CachedAttrs{}, ttl: time.Duration(ttl), negativeTTL: time.Duration(negTTL), maxSize: capN,
		accessList: list.New(), enableNegative: negOn}
	m := &vpMCache{cap: capN, ttl: ttl, negTTL: negTTL, negOn: negOn}
	for i := n - 1; i >= 0; i-- { // from least to most recently used
		k := keys[i]
		x := vpMEntry{key: k, size: vpI64("size"), uid: vpU32("uid"), expire: vpI64("expire")}
		vpAssume(vpAnd(x.expire >= 0, x.expire < 1<<50))
		vpAssume(x.expire != now) // the statement does not say what happens at the exact expiry instant
		if negOn {
			x.neg = vpBool("negative")
		}
		ent := &CachedAttrs{expireAt: vpAt(x.expire), isNegative: x.neg}
		if !x.neg {
			ent.attrs = &NFSAttrs{Size: x.size, Uid: x.uid, Mode: 0644}
		}
		c.cache[k] = ent
		ent.listElement = c.accessList.PushFront(k)
		m.e = append([]vpMEntry{x}, m.e...)
	}
	vpSetClock(now)

	key := vpCacheKeys[vpChoose("key", 0, 3)]
	op := vpChoose("op", 0, 8)
	switch op {
	case 0:
		vpReach("op-get")
		a, hit := c.Get(key)
		mh, mn, ms, mu := m.get(key, now)
		vpAssert(hit == mh, "get-hit-agrees")
		if hit && mh {
			vpAssert((a == nil) == mn, "get-negative-agrees")
			if a != nil && !mn {
				vpAssert(vpAnd(a.Size == ms, a.Uid == mu), "get-value-agrees")
				a.Size = 999 // mutating the returned copy must not reach the cache
			}
		}
	case 1:
		vpReach("op-put")
		v := &NFSAttrs{Size: vpI64("newsize"), Uid: vpU32("newuid"), Mode: 0600}
		c.Put(key, v)
		m.put(vpMEntry{key: key, size: v.Size, uid: v.Uid, expire: now + ttl})
		v.Size = 777 // the cache keeps its own copy
	case 2:
		vpReach("op-putnegative")
		c.PutNegative(key)
		if m.negOn {
			m.put(vpMEntry{key: key, neg: true, expire: now + negTTL})
		}
	case 3:
		vpReach("op-invalidate")
		c.Invalidate(key)
		if i := m.find(key); i >= 0 {
			m.remove(i)
		}
	case 4:
		vpReach("op-invalidate-negative-in-dir")
		dir := []string{"/d", "/", "/d/e"}[vpChoose("dir", 0, 2)]
		c.InvalidateNegativeInDir(dir)
		for i := len(m.e) - 1; i >= 0; i-- {
			if m.e[i].neg && vpDirectChild(m.e[i].key, dir) {
				m.remove(i)
			}
		}
	case 5:
		vpReach("op-resize")
		ns := vpChoose("newcap", 0, maxCap)
		c.Resize(ns)
		if ns <= 0 {
			ns = 10000
		}
		m.cap = ns
		for len(m.e) > m.cap {
			m.remove(len(m.e) - 1)
		}
	case 6:
		vpReach("op-updatettl")
		nt := vpI64("newttl")
		vpAssume(vpAnd(nt > -(1<<40), nt < 1<<40))
		c.UpdateTTL(time.Duration(nt))
		if nt <= 0 {
			nt = int64(5 * time.Second)
		}
		m.ttl = nt
		ttl = nt
	case 7:
		vpReach("op-clear")
		c.Clear()
		m.e = nil
	case 8:
		vpReach("op-configure-negative")
		en := vpBool("enable")
		nt := vpI64("cfgttl")
		vpAssume(vpAnd(nt > -(1<<40), nt < 1<<40))
		c.ConfigureNegativeCaching(en, time.Duration(nt))
		m.negOn = en
		if nt > 0 {
			m.negTTL = nt
			negTTL = nt
		}
		if !en {
			// negative entries exist only while negative caching is enabled
			for i := len(m.e) - 1; i >= 0; i-- {
				if m.e[i].neg {
					m.remove(i)
				}
			}
			vpKnown("K-C21-negative-entries-survive-disable", true)
		}
	}
	vpAssert(c.Size() <= c.MaxSize(), "size-within-capacity")
	vpAttrCacheRI(c, "ri")

	// expose the LRU order: a Put of a fresh key evicts the least recently used entry when full
	if vpBool("then-put-fresh") {
		vpReach("eviction-probe")
		c.Put("/zz", &NFSAttrs{Size: 5})
		m.put(vpMEntry{key: "/zz", size: 5, expire: now + ttl})
		vpAssert(c.Size() <= c.MaxSize(), "size-within-capacity-after-put")
	}

	// probe every key
	for _, k := range []string{"/a", "/d/b", "/d/c", "/d/e/f", "/zz"} {
		a, hit := c.Get(k)
		mh, mn, ms, mu := m.get(k, now)
		vpAssert(hit == mh, "probe-hit-agrees")
		if hit && mh {
			vpAssert((a == nil) == mn, "probe-negative-agrees")
			if a != nil && !mn {
				vpAssert(vpAnd(a.Size == ms, a.Uid == mu), "probe-value-agrees")
			}
		}
	}
	vpAttrCacheRI(c, "ri-after-probes")
}

// representation invariants (what makes one step compose to histories): the LRU list and the map
// are in bijection, every entry points at its own list element.
func vpAttrCacheRI(c *AttrCache, tag string) {
	vpAssert(c.accessList.Len() == len(c.cache), tag+"-list-and-map-same-size")
	for e := c.accessList.Front(); e != nil; e = e.Next() {
		k, _ := e.Value.(string)
		ent, ok := c.cache[k]
		vpAssert(ok, tag+"-list-element-has-entry")
		if ok {
			vpAssert(ent.listElement == e, tag+"-entry-points-at-its-element")
		}
	}
}

func vpDirCacheRI(c *DirCache, tag string) {
	vpAssert(c.accessList.Len() == len(c.entries), tag+"-list-and-map-same-size")
	for e := c.accessList.Front(); e != nil; e = e.Next() {
		k, _ := e.Value.(string)
		ent, ok := c.entries[k]
		vpAssert(ok, tag+"-list-element-has-entry")
		if ok {
			vpAssert(ent.listElement == e, tag+"-entry-points-at-its-element")
		}
	}
}

// VPH_C21_dircache_step: the same for the directory cache (Put/Get/Invalidate/Resize/UpdateTTL/Clear).
func VPH_C21_dircache_step() {
	maxCap := 2
	if vpTier() == 1 {
		maxCap = 3
	}
	capN := vpChoose("cap", 1, maxCap)
	n := vpChoose("n", 0, capN)
	keys := vpPickKeys(n)
	ttl := vpI64("ttl")
	vpAssume(vpAnd(ttl > 0, ttl < 1<<40))
	now := vpI64("now")
	vpAssume(vpAnd(now >= 0, now < 1<<50))
	c := &DirCache{entries: map[string]*CachedDirEntry{}, accessList: list.New(), timeout: time.Duration(ttl), maxEntries: capN, maxDirSize: 2}
	m := &vpMCache{cap: capN, ttl: ttl}
	mkList := func(tag int64) []os.FileInfo { return []os.FileInfo{&vpInfo{name: "e", size: tag}} }
	for i := n - 1; i >= 0; i-- {
		k := keys[i]
		x := vpMEntry{key: k, size: vpI64("tag"), expire: vpI64("expire")}
		vpAssume(vpAnd(x.expire >= 0, x.expire < 1<<50))
		vpAssume(x.expire != now)
		ent := &CachedDirEntry{entries: mkList(x.size), validUntil: vpAt(x.expire)}
		c.entries[k] = ent
		ent.listElement = c.accessList.PushFront(k)
		m.e = append([]vpMEntry{x}, m.e...)
	}
	vpSetClock(now)
	key := vpCacheKeys[vpChoose("key", 0, 3)]
	switch vpChoose("op", 0, 5) {
	case 0:
		vpReach("op-get")
		l, hit := c.Get(key)
		mh, _, ms, _ := m.get(key, now)
		vpAssert(hit == mh, "get-hit-agrees")
		if hit && mh {
			vpAssert(vpAnd(len(l) == 1, l[0].Size() == ms), "get-value-agrees")
			l[0] = &vpInfo{name: "tampered"} // the returned slice is a copy
		}
	case 1:
		vpReach("op-put")
		tag := vpI64("newtag")
		nent := vpChoose("listlen", 1, 3)
		lst := mkList(tag)
		for len(lst) < nent {
			lst = append(lst, &vpInfo{name: "more"})
		}
		c.Put(key, lst)
		if nent <= 2 { // listings above the per-directory limit are not cached
			m.put(vpMEntry{key: key, size: tag, expire: now + ttl})
		}
	case 2:
		vpReach("op-invalidate")
		c.Invalidate(key)
		if i := m.find(key); i >= 0 {
			m.remove(i)
		}
	case 3:
		vpReach("op-resize")
		ns := vpChoose("newcap", 0, maxCap)
		c.Resize(ns)
		if ns <= 0 {
			ns = 1000
		}
		m.cap = ns
		for len(m.e) > m.cap {
			m.remove(len(m.e) - 1)
		}
	case 4:
		vpReach("op-updatettl")
		nt := vpI64("newttl")
		vpAssume(vpAnd(nt > -(1<<40), nt < 1<<40))
		c.UpdateTTL(time.Duration(nt))
		if nt <= 0 {
			nt = int64(10 * time.Second)
		}
		m.ttl, ttl = nt, nt
	case 5:
		vpReach("op-clear")
		c.Clear()
		m.e = nil
	}
	vpAssert(c.Size() <= c.maxEntries, "size-within-capacity")
	vpDirCacheRI(c, "ri")
	if vpBool("then-put-fresh") {
		vpReach("eviction-probe")
		c.Put("/zz", mkList(5))
		m.put(vpMEntry{key: "/zz", size: 5, expire: now + ttl})
		vpAssert(c.Size() <= c.maxEntries, "size-within-capacity-after-put")
	}
	for _, k := range []string{"/a", "/d/b", "/d/c", "/d/e/f", "/zz"} {
		l, hit := c.Get(k)
		mh, _, ms, _ := m.get(k, now)
		vpAssert(hit == mh, "probe-hit-agrees")
		if hit && mh {
			vpAssert(vpAnd(len(l) >= 1, l[0].Size() == ms), "probe-value-agrees")
		}
	}
	vpDirCacheRI(c, "ri-after-probes")
}

// VPH_C21_ischildof: isChildOf(path, dir) <=> path is dir joined with one non-empty component.
func VPH_C21_ischildof() {
	P, D := 5, 3
	if vpTier() == 1 {
		P, D = 6, 3
	}
	p := vpStr("path", vpChoose("plen", 0, P))
	d := vpStr("dir", vpChoose("dlen", 1, D))
	// cache keys and directories are clean absolute paths ("/" or no trailing slash)
	if len(p) > 0 {
		vpAssume(p[0] == '/')
	}
	vpAssume(d[0] == '/')
	if len(d) > 1 {
		vpAssume(d[len(d)-1] != '/')
	}
	got := isChildOf(p, d)
	// reference: strip dir + "/" (or "/" for the root), remainder non-empty and slash-free
	want := false
	pre := d + "/"
	if d == "/" {
		pre = "/"
	}
	if len(p) > len(pre) {
		okPre := p[:len(pre)] == pre
		noSlash := true
		for i := len(pre); i < len(p); i++ {
			noSlash = vpAnd(noSlash, p[i] != '/')
		}
		want = vpAnd(okPre, noSlash)
	}
	vpAssert(got == want, "ischildof-equals-direct-child")
}
