package absnfs

// C30 — the TLS listener enforces the configured security floor (configuration logic only).

import "crypto/tls"

func init() {
	vpRegister("VPH_C30_floor", VPH_C30_floor)
	vpRegister("VPH_C30_rotation", VPH_C30_rotation)
	vpRegister("VPH_C30_listen_after_update", VPH_C30_listen_after_update)
}

// vpCertFiles returns paths of a server certificate, its key and a CA file. In the engine
// the file and crypto layer is stubbed; natively the replay test file installs a generator.
var vpCertFilesHook func() (cert, key, ca string)
var vpRotateHook func()

func vpCertFiles() (string, string, string) {
	if vpSymbolic() || vpCertFilesHook == nil {
		return "cert.pem", "key.pem", "ca.pem"
	}
	return vpCertFilesHook()
}

// VPH_C30_floor: every TLS configuration that Validate/BuildConfig accept has an effective minimum
// version of at least TLS 1.2 and carries the CA pool whenever client certificates are verified.
func VPH_C30_floor() {
	cert, key, ca := vpCertFiles()
	tc := &TLSConfig{Enabled: true, CertFile: cert, KeyFile: key,
		MinVersion: vpU16("minversion"), MaxVersion: vpU16("maxversion"),
		ClientAuth: tls.ClientAuthType(vpChoose("clientauth", 0, 4)),
		// the remaining switches of the configuration: none of them may weaken what is verified
		InsecureSkipVerify: vpBool("insecure-skip-verify"), PreferServerCipherSuites: vpBool("prefer-server-suites")}
	if vpBool("explicit-suites") {
		tc.CipherSuites = []uint16{tls.TLS_ECDHE_RSA_WITH_AES_128_GCM_SHA256}
	}
	if vpBool("with-ca") {
		tc.CAFile = ca
	}
	cfg, err := tc.BuildConfig()
	if err != nil {
		vpReach("rejected")
		return
	}
	vpReach("accepted")
	vpAssert(cfg != nil, "config-built")
	// crypto/tls: MinVersion 0 means the package default, which is TLS 1.2 for servers
	eff := cfg.MinVersion
	if eff == 0 {
		eff = tls.VersionTLS12
	}
	vpAssert(eff >= tls.VersionTLS12, "effective-minimum-at-least-TLS12")
	vpAssert(cfg.MinVersion == tc.MinVersion, "configured-minimum-carried-over")
	vpAssert(cfg.MaxVersion == tc.MaxVersion, "configured-maximum-carried-over")
	vpAssert(cfg.ClientAuth == tc.ClientAuth, "client-auth-carried-over")
	if tc.ClientAuth >= tls.VerifyClientCertIfGiven && tc.CAFile != "" {
		vpAssert(cfg.ClientCAs != nil, "verifying-config-carries-the-configured-CA-pool")
	}
	vpAssert(cfg.GetCertificate != nil, "certificate-callback-installed")
}

func vpCertID(c *tls.Certificate) string {
	if c == nil || len(c.Certificate) == 0 {
		return ""
	}
	return string(c.Certificate[0])
}

// VPH_C30_rotation: the documented rotation step makes new handshakes present the reloaded certificate.
func VPH_C30_rotation() {
	cert, key, _ := vpCertFiles()
	fs := vpStdTree()
	tlsOpts := &TLSConfig{Enabled: true, CertFile: cert, KeyFile: key, MinVersion: tls.VersionTLS12, MaxVersion: tls.VersionTLS13}
	env := vpServer(fs, ExportOptions{TLS: tlsOpts})
	// the settings may have been fetched before the listener was started, or afterwards
	early := vpBool("settings-fetched-before-listen")
	var opts ExportOptions
	if early {
		opts = env.nfs.GetExportOptions()
		vpReach("settings-fetched-before-listen")
	}
	// what Listen does
	listenerCfg, err := env.nfs.policy.Load().TLS.BuildConfig()
	vpAssert(err == nil, "listener-config-builds")
	before, _ := listenerCfg.GetCertificate(nil)
	if !vpSymbolic() && vpRotateHook != nil {
		vpRotateHook() // new certificate written to the same files
	}
	// the documented rotation step
	if !early {
		opts = env.nfs.GetExportOptions()
	}
	vpAssert(opts.TLS != nil, "tls-settings-reported")
	vpAssert(opts.TLS.ReloadCertificates() == nil, "reload-succeeds")
	after, _ := listenerCfg.GetCertificate(nil)
	vpKnown("K-C30-reload-on-a-clone", true)
	vpAssert(vpCertID(after) != vpCertID(before), "new-handshakes-present-the-reloaded-certificate")
}

// VPH_C30_listen_after_update: the configuration a listener is started with is the one in force. A
// server is started with TLS and no client certificates; the settings are then tightened through
// the documented read-modify-write (GetExportOptions, require and verify client certificates against
// a CA, UpdateExportOptions) and a listener is started again: the tls.Config handed to tls.Listen the
// second time requires and verifies client certificates against the CA pool and keeps the version floor.
func VPH_C30_listen_after_update() {
	cert, key, ca := vpCertFiles()
	fs := vpStdTree()
	env := vpServer(fs, ExportOptions{TLS: &TLSConfig{Enabled: true, CertFile: cert, KeyFile: key,
		MinVersion: tls.VersionTLS12, MaxVersion: tls.VersionTLS13, ClientAuth: tls.NoClientCert}})
	l1 := &vpListener{addr: "127.0.0.1:2049", done: make(chan struct{})}
	vpListeners = map[string]*vpListener{"": l1}
	vpTLSListenConfigs = nil
	defer func() { vpListeners = nil }()
	start := func() *tls.Config {
		s, err := NewServer(ServerOptions{Name: "vp", Port: 2049, Hostname: "localhost", UseRecordMarking: true})
		vpAssert(err == nil, "server-created")
		s.SetHandler(env.nfs)
		before := len(vpTLSListenConfigs)
		vpAssert(s.Listen() == nil, "listen-starts")
		vpAssert(len(vpTLSListenConfigs) == before+1, "tls-listener-created")
		if len(vpTLSListenConfigs) != before+1 {
			return nil
		}
		return vpTLSListenConfigs[before]
	}
	c1 := start()
	if c1 == nil {
		return
	}
	vpAssert(c1.ClientAuth == tls.NoClientCert, "first-listener-as-configured")
	want := tls.ClientAuthType(vpChoose("tightened-to", 3, 4)) // VerifyClientCertIfGiven or RequireAndVerifyClientCert
	o := env.nfs.GetExportOptions()
	vpAssert(o.TLS != nil, "tls-settings-reported")
	o.TLS.ClientAuth = want
	o.TLS.CAFile = ca
	vpAssert(env.nfs.UpdateExportOptions(o) == nil, "tightening-accepted")
	vpAssert(env.nfs.GetExportOptions().TLS.ClientAuth == want, "tightening-reported")
	c2 := start()
	if c2 == nil {
		return
	}
	vpAssert(c2.ClientAuth == want, "listener-started-after-the-update-verifies-client-certificates")
	vpAssert(c2.ClientCAs != nil, "listener-started-after-the-update-has-the-CA-pool")
	eff := c2.MinVersion
	if eff == 0 {
		eff = tls.VersionTLS12
	}
	vpAssert(eff >= tls.VersionTLS12, "listener-started-after-the-update-keeps-the-floor")
	l1.Close()
}
