package absnfs

// C08 — a read-only export is never modified.

func init() {
	vpRegister("VPH_C08_readonly", VPH_C08_readonly)
	vpRegister("VPH_C08_garbage", VPH_C08_garbage)
}

func vpReadOnlyEnv() *vpEnv {
	fs := vpStdTree()
	var env *vpEnv
	if vpBool("ro-at-runtime") {
		env = vpServer(fs, ExportOptions{})
		p := *env.nfs.policy.Load()
		p.ReadOnly = true
		if err := env.nfs.UpdatePolicyOptions(p); err != nil {
			vpAssume(false)
		}
		vpReach("ro-runtime")
	} else {
		env = vpServer(fs, ExportOptions{ReadOnly: true})
		vpReach("ro-construction")
	}
	return env
}

func VPH_C08_readonly() {
	env := vpReadOnlyEnv()
	hd, hx, hl, he := env.handleFor("/d"), env.handleFor("/d/x"), env.handleFor("/d/l"), env.handleFor("/e")
	env.auth.EffectiveUID, env.auth.EffectiveGID = vpU32("euid"), vpU32("egid")
	env.fs.log = nil
	before := env.fs.snapshot()

	g := &vpGen{handles: []uint64{hd, hx, hl, he}, names: []string{"x", "new", "l"}, wild: vpTier() == 1, maxData: 3}
	sel := vpChoose("proc", 0, 22)
	var proc uint32
	if sel == 22 {
		proc = vpU32("unknownproc")
		vpAssume(proc > 21)
	} else {
		proc = uint32(sel)
	}
	reply := env.call(proc, g.args(proc))
	vpAssert(reply != nil, "reply")

	vpAssert(env.fs.mutations() == 0, "no-modifying-backend-call")
	vpAssert(env.fs.snapshot() == before, "backend-unchanged")
	if vpMutatingProcs[proc] {
		vpReach("mutating-proc")
		rd := &vpRd{b: vpReplyBytes(reply)}
		status := rd.u32()
		vpAssert(vpAnd(!rd.bad, status != NFS_OK), "mutating-procedure-fails")
	}
	if proc == NFSPROC3_ACCESS {
		rd := &vpRd{b: vpReplyBytes(reply)}
		if rd.u32() == NFS_OK {
			vpReach("access-ok")
			rd.postOp()
			granted := rd.u32()
			vpAssert(granted&(ACCESS3_MODIFY|ACCESS3_EXTEND|ACCESS3_DELETE) == 0, "access-never-grants-write")
		}
	}
}

// VPH_C08_garbage: arbitrary argument bytes for every mutating procedure. Length words are
// restricted so that make() sizes stay enumerable (see the registry bounds).
func VPH_C08_garbage() {
	env := vpReadOnlyEnv()
	hd := env.handleFor("/d")
	env.handleFor("/d/x")
	env.fs.log = nil
	before := env.fs.snapshot()
	B := 12
	if vpTier() == 1 {
		B = 20
	}
	muts := []uint32{NFSPROC3_SETATTR, NFSPROC3_WRITE, NFSPROC3_CREATE, NFSPROC3_MKDIR, NFSPROC3_SYMLINK, NFSPROC3_MKNOD,
		NFSPROC3_REMOVE, NFSPROC3_RMDIR, NFSPROC3_RENAME, NFSPROC3_LINK, NFSPROC3_COMMIT}
	sel := muts[vpChoose("proc", 0, len(muts)-1)]
	n := 4 * vpChoose("words", 0, B/4)
	body := vpBytes("body", n)
	for w := 0; w+4 <= n; w += 4 {
		v := uint32(body[w])<<24 | uint32(body[w+1])<<16 | uint32(body[w+2])<<8 | uint32(body[w+3])
		vpAssume(vpOr(v <= 12, v > 8192))
	}
	// optionally make the first 12 bytes a valid directory handle so the body gets further
	if vpBool("valid-handle-prefix") {
		var b vpBuf
		b.fh(hd).raw(body)
		body = b.Bytes()
	}
	reply := env.call(uint32(sel), body)
	vpAssert(reply != nil, "reply")
	vpAssert(env.fs.mutations() == 0, "no-modifying-backend-call")
	vpAssert(env.fs.snapshot() == before, "backend-unchanged")
	if vpMutatingProcs[uint32(sel)] {
		rd := &vpRd{b: vpReplyBytes(reply)}
		status := rd.u32()
		vpAssert(vpAnd(!rd.bad, status != NFS_OK), "mutating-procedure-fails")
	}
}
