package absnfs

// C18 — rate limiters never admit more than burst + rate x elapsed.
// C19 — traffic refused to one client does not consume shared capacity.

import "time"

func init() {
	vpRegister("VPH_C18_bucket_step", VPH_C18_bucket_step)
	vpRegister("VPH_C18_bucket_fp", VPH_C18_bucket_fp)
	vpRegister("VPH_C18_cleanup", VPH_C18_cleanup)
	vpRegister("VPH_C18_compose", VPH_C18_compose)
	vpRegister("VPH_C18_optypes", VPH_C18_optypes)
	vpRegister("VPH_C19_refused_keeps_global", VPH_C19_refused_keeps_global)
	vpRegister("VPH_C19_second_client", VPH_C19_second_client)
	vpRegister("VPH_C19_two_clients_fixed_instant", VPH_C19_two_clients_fixed_instant)
	vpRegister("VPH_C19_newcomer_after_cleanup", VPH_C19_newcomer_after_cleanup)
}

// vpAt returns the time.Time the code sees when the clock reads t.
func vpAt(t int64) time.Time {
	vpSetClock(t)
	return vpNow()
}

func vpSecs(from, to int64) float64 { return time.Duration(to - from).Seconds() }

// VPH_C18_bucket_step: one Allow from an arbitrary bucket state at an arbitrary
// later instant preserves   0 <= tokens <= burst   and
// tokens + admitted <= burst + rate*(lastRefill - t0),   which gives
// admitted <= burst + rate*elapsed for histories of any length. (float64 read as real.)
func VPH_C18_bucket_step() {
	t0, tl, tn := vpTimeInt("t0"), vpTimeInt("tlast"), vpTimeInt("tnow")
	vpAssume(vpAnd(t0 <= tl, tl <= tn))
	rate, burst := vpF64("rate"), vpF64("burst")
	vpAssume(vpAnd(rate >= 0, burst >= 0))
	tokens, admitted := vpF64("tokens"), vpF64("admitted")
	vpAssume(vpAnd(tokens >= 0, tokens <= burst))
	vpAssume(admitted >= 0)
	vpAssume(tokens+admitted <= burst+rate*vpSecs(t0, tl))
	tb := &TokenBucket{tokens: tokens, maxTokens: burst, refillRate: rate, lastRefill: vpAt(tl)}
	n := vpChoose("n", 1, 2) // Allow, or AllowN(n)
	vpSetClock(tn)
	var ok bool
	if n == 1 {
		ok = tb.Allow()
	} else {
		ok = tb.AllowN(n)
	}
	if ok {
		vpReach("admitted")
		admitted += float64(n)
	} else {
		vpReach("refused")
	}
	vpAssert(vpAnd(tb.tokens >= 0, tb.tokens <= burst), "tokens-in-range")
	vpAssert(tb.tokens+admitted <= burst+rate*vpSecs(t0, tn), "admitted-within-burst-plus-rate-times-elapsed")
	vpAssert(tb.lastRefill.Sub(vpAt(tn)) == 0, "lastRefill-advanced")
	// a bucket that has a whole token admits (no spurious refusal)
	vpAssert(vpImplies(tokens >= float64(n), ok), "admits-when-tokens-available")
}

// VPH_C18_bucket_fp: the same step in IEEE double arithmetic (bit-precise): no NaN or
// infinity appears, tokens stay in range, exactly n tokens are taken on admission and
// none on refusal. The elapsed seconds are any finite non-negative double.
func VPH_C18_bucket_fp() {
	tl, tn := vpI64("tlast"), vpI64("tnow")
	vpAssume(vpAnd(tl >= 0, vpAnd(tl <= tn, tn < 1<<61)))
	rate, burst, tokens := vpF64("rate"), vpF64("burst"), vpF64("tokens")
	vpAssume(vpAnd(rate >= 0, rate <= 1e9))
	vpAssume(vpAnd(burst >= 0, burst <= 2147483647))
	vpAssume(vpAnd(tokens >= 0, tokens <= burst))
	tb := &TokenBucket{tokens: tokens, maxTokens: burst, refillRate: rate, lastRefill: vpAt(tl)}
	vpSetClock(tn)
	ok := tb.Allow()
	after := tb.tokens
	vpAssert(after == after, "tokens-not-NaN")
	vpAssert(vpAnd(after >= 0, after <= burst), "tokens-in-range")
	if ok {
		vpReach("admitted")
		// one token was taken from a refilled level of at least one
		vpAssert(after+1 >= 1, "had-a-token")
		vpAssert(after+1 <= burst, "took-exactly-from-capped-level")
	} else {
		vpReach("refused")
		vpAssert(after < 1, "refused-only-below-one-token")
	}
	vpAssert(vpImplies(tokens >= 1, ok), "admits-when-tokens-available")
}

// VPH_C18_cleanup: periodic cleanup of idle per-IP limiters never changes a decision.
// Two limiters in the same symbolic state, one of which runs its cleanup pass on this call.
func VPH_C18_cleanup() {
	tc, tl, tn := vpTimeInt("tcreated"), vpTimeInt("tlast"), vpTimeInt("tnow")
	vpAssume(vpAnd(tc <= tl, tl <= tn))
	vpAssume(tn > tc)
	// concrete rates keep the arithmetic linear (rate x elapsed with both symbolic is decided in the bucket step)
	rate := []float64{0, 0.5, 3}[vpChoose("rate", 0, 2)]
	burst := vpChoose("burst", 1, 2)
	tokA := vpF64("tokensA")
	vpAssume(vpAnd(tokA >= 0, tokA <= float64(burst)))
	mk := func(cleanupDue bool) *PerIPLimiter {
		vpSetClock(tc)
		pl := NewPerIPLimiter(rate, burst, time.Hour)
		pl.limiters["a"] = &TokenBucket{tokens: tokA, maxTokens: float64(burst), refillRate: rate, lastRefill: vpAt(tl)}
		if cleanupDue {
			pl.cleanupInterval = 0 // any elapsed time triggers the cleanup pass
		}
		return pl
	}
	with, without := mk(true), mk(false)
	ip := "a"
	if vpBool("ask-new") {
		ip = "c"
	}
	vpSetClock(tn)
	d1 := with.Allow(ip)
	d2 := without.Allow(ip)
	vpAssert(d1 == d2, "cleanup-does-not-change-decision")
	// nor the decision for the address whose limiter may have been dropped
	d3 := with.Allow("a")
	d4 := without.Allow("a")
	vpAssert(d3 == d4, "cleanup-does-not-change-next-decision")
}

// VPH_C18_compose: k requests over 2 addresses x 2 connections with arbitrary
// non-decreasing instants through the real RateLimiter; every level's admitted
// count stays within its own burst + rate x elapsed.
func VPH_C18_compose() {
	k := 2
	if vpTier() == 1 {
		k = 3
	}
	t0 := vpTimeInt("t0")
	vpSetClock(t0)
	cfg := RateLimiterConfig{GlobalRequestsPerSecond: 3, PerIPRequestsPerSecond: 2, PerIPBurstSize: 2,
		PerConnectionRequestsPerSecond: 1, PerConnectionBurstSize: 1, ReadLargeOpsPerSecond: 1, WriteLargeOpsPerSecond: 1,
		ReaddirOpsPerSecond: 1, MountOpsPerMinute: 60, CleanupInterval: time.Hour}
	rl := NewRateLimiter(cfg)
	ips := []string{"10.0.0.1", "10.0.0.2"}
	conns := []string{"c1", "c2"}
	var global float64
	perIP := map[string]float64{}
	perConn := map[string]float64{}
	connCreated := map[string]int64{}
	ipCreated := map[string]int64{}
	prev := t0
	for i := 0; i < k; i++ {
		t := vpTimeInt("t")
		vpAssume(t >= prev)
		prev = t
		vpSetClock(t)
		ip := ips[vpChoose("ip", 0, 1)]
		conn := ip + conns[vpChoose("conn", 0, 1)]
		if _, ok := ipCreated[ip]; !ok {
			ipCreated[ip] = t
		}
		if _, ok := connCreated[conn]; !ok {
			connCreated[conn] = t
		}
		if rl.AllowRequest(ip, conn) {
			global++
			perIP[ip]++
			perConn[conn]++
			vpReach("admitted")
		} else {
			vpReach("refused")
		}
		vpAssert(global <= 3+3*vpSecs(t0, t), "global-bound")
		vpAssert(perIP[ip] <= 2+2*vpSecs(ipCreated[ip], t), "per-ip-bound")
		vpAssert(perConn[conn] <= 1+1*vpSecs(connCreated[conn], t), "per-connection-bound")
	}
}

// VPH_C18_optypes: each per-operation limiter (large read, large write, readdir, mount)
// admits at most its burst + rate x elapsed over three calls at arbitrary instants.
func VPH_C18_optypes() {
	t0 := vpTimeInt("t0")
	vpSetClock(t0)
	cfg := RateLimiterConfig{GlobalRequestsPerSecond: 3, PerIPRequestsPerSecond: 2, PerIPBurstSize: 2,
		ReadLargeOpsPerSecond: 1, WriteLargeOpsPerSecond: 2, ReaddirOpsPerSecond: 3, MountOpsPerMinute: 30, CleanupInterval: time.Hour}
	// a configured rate of zero is a rate: the type's burst is all that is ever admitted
	zero := vpBool("zero-rates")
	if zero {
		cfg.ReadLargeOpsPerSecond, cfg.WriteLargeOpsPerSecond, cfg.ReaddirOpsPerSecond, cfg.MountOpsPerMinute = 0, 0, 0, 0
	}
	rl := NewRateLimiter(cfg)
	sel := vpChoose("op", 0, 3)
	op := []OperationType{OpTypeReadLarge, OpTypeWriteLarge, OpTypeReaddir, OpTypeMount}[sel]
	rate := []float64{1, 2, 3, 0.5}[sel]
	if zero {
		rate = 0
	}
	burst := []float64{10, 5, 5, 2}[sel]
	// drain most of the burst first so that the refill matters
	pre := int(burst) - 1
	first := vpTimeInt("tfirst")
	vpAssume(first >= t0)
	vpSetClock(first)
	var n float64
	for i := 0; i < pre; i++ {
		if rl.AllowOperation("10.0.0.1", op) {
			n++
		}
	}
	prev := first
	for i := 0; i < 3; i++ {
		t := vpTimeInt("t")
		vpAssume(t >= prev)
		prev = t
		vpSetClock(t)
		if rl.AllowOperation("10.0.0.1", op) {
			n++
			vpReach("admitted")
		} else {
			vpReach("refused")
		}
		vpAssert(n <= burst+rate*vpSecs(first, t), "operation-type-bound")
	}
}

// VPH_C19_refused_keeps_global: a request refused by its per-IP or per-connection
// limit leaves the global budget untouched.
func VPH_C19_refused_keeps_global() {
	t0, tn := vpTimeInt("t0"), vpTimeInt("tnow")
	vpAssume(t0 <= tn)
	vpSetClock(t0)
	cfg := RateLimiterConfig{GlobalRequestsPerSecond: 5, PerIPRequestsPerSecond: 1, PerIPBurstSize: 1,
		PerConnectionRequestsPerSecond: 1, PerConnectionBurstSize: 1, CleanupInterval: time.Hour}
	rl := NewRateLimiter(cfg)
	g := vpF64("global-tokens")
	vpAssume(vpAnd(g >= 1, g <= 5))
	rl.globalLimiter.tokens = g
	abuserTokens := vpF64("abuser-ip-tokens")
	vpAssume(vpAnd(abuserTokens >= 0, abuserTokens <= 1))
	rl.perIPLimiter.limiters["6.6.6.6"] = &TokenBucket{tokens: abuserTokens, maxTokens: 1, refillRate: 1, lastRefill: vpAt(t0)}
	// ... and so does its connection's bucket: the refusal may come from either of the client's own limits
	connTokens := vpF64("abuser-conn-tokens")
	vpAssume(vpAnd(connTokens >= 0, connTokens <= 1))
	rl.perConnectionLimiter.Store("conn-x", &TokenBucket{tokens: connTokens, maxTokens: 1, refillRate: 1, lastRefill: vpAt(t0)})
	vpSetClock(tn)
	// what the global bucket holds at tn if nobody takes anything
	idle := rl.globalLimiter.Tokens()
	ok := rl.AllowRequest("6.6.6.6", "conn-x")
	after := rl.globalLimiter.Tokens()
	if ok {
		vpReach("admitted")
		vpAssert(after == idle-1, "admitted-request-takes-one-global-token")
	} else {
		vpReach("refused")
		vpKnown("K-C19-global-token-taken-first", true)
		vpAssert(after == idle, "refused-request-takes-no-global-token")
	}
}

// VPH_C19_second_client: after any amount of refused traffic from one address, a
// first request from another address is admitted while the admitted total is
// within the global limit.
func VPH_C19_second_client() {
	k := 3
	if vpTier() == 1 {
		k = 6
	}
	t0 := vpTimeInt("t0")
	vpSetClock(t0)
	cfg := RateLimiterConfig{GlobalRequestsPerSecond: 2, PerIPRequestsPerSecond: 1, PerIPBurstSize: 1,
		PerConnectionRequestsPerSecond: 0, CleanupInterval: time.Hour}
	rl := NewRateLimiter(cfg)
	admitted := 0
	for i := 0; i < k; i++ {
		// the abusive client hammers within the same instant: at most its burst of 1 is admitted
		if rl.AllowRequest("6.6.6.6", "c") {
			admitted++
		}
	}
	vpAssert(admitted <= 1, "abuser-held-to-its-own-burst")
	// the global limit (burst 2) has admitted at most one request so far: a compliant client must get through
	vpKnown("K-C19-global-token-taken-first", true)
	vpAssert(rl.AllowRequest("10.0.0.1", "d"), "compliant-client-admitted")
}

// VPH_C19_two_clients_fixed_instant: k requests from two addresses in any order at one instant (no
// refill), per-address burst 2, global and per-connection limits far away: each address is admitted
// exactly for its own first two requests - nothing one client sends, admitted or refused, is charged
// to the other.
func VPH_C19_two_clients_fixed_instant() {
	k := 6
	if vpTier() == 1 {
		k = 8
	}
	vpSetClock(1_000_000_000) // one fixed instant: the order of the requests is what is symbolic here
	cfg := RateLimiterConfig{GlobalRequestsPerSecond: 1000, PerIPRequestsPerSecond: 1, PerIPBurstSize: 2,
		PerConnectionRequestsPerSecond: 1000, PerConnectionBurstSize: 1000, CleanupInterval: time.Hour}
	rl := NewRateLimiter(cfg)
	// two IPv4 clients, two IPv6 clients, or one of each
	ips := [][]string{{"10.0.0.1", "10.0.0.2"}, {"2001:db8::1", "2001:db8::2"}, {"10.0.0.1", "2001:db8::1"}}[vpChoose("address-families", 0, 2)]
	sent := map[string]int{}
	for i := 0; i < k; i++ {
		ip := ips[vpChoose("ip", 0, 1)]
		got := rl.AllowRequest(ip, "conn-"+ip)
		vpAssert(got == (sent[ip] < 2), "each-client-judged-by-its-own-requests-only")
		sent[ip]++
	}
	vpReach("two-clients")
}

// VPH_C19_newcomer_after_cleanup: one client exhausts its own per-IP burst; any time later (so
// that the periodic cleanup of idle limiters may or may not have run, triggered by a third
// client's request) a client never seen before sends its first burst at one instant: all of it is
// admitted - nothing of the first client's exhaustion is carried over to anybody else.
func VPH_C19_newcomer_after_cleanup() {
	t0 := int64(1_000_000_000)
	vpSetClock(t0)
	cfg := RateLimiterConfig{GlobalRequestsPerSecond: 1000, PerIPRequestsPerSecond: 1, PerIPBurstSize: 2,
		PerConnectionRequestsPerSecond: 1000, PerConnectionBurstSize: 1000, CleanupInterval: 10 * time.Second}
	rl := NewRateLimiter(cfg)
	n := 0
	for i := 0; i < 4; i++ {
		if rl.AllowRequest("10.0.0.1", "conn-a") {
			n++
		}
	}
	vpAssert(n == 2, "first-client-held-to-its-burst")
	// later: 0 s, 5 s (bucket refilled, no cleanup yet), 15 s or an hour (cleanup due)
	later := []int64{0, 5, 15, 3600}[vpChoose("seconds-later", 0, 3)]
	vpSetClock(t0 + later*1_000_000_000)
	if vpBool("third-client-first") {
		rl.AllowRequest("10.0.0.3", "conn-c") // this request is the one that runs the cleanup
	}
	got := 0
	for i := 0; i < 3; i++ {
		if rl.AllowRequest("10.0.0.2", "conn-b") {
			got++
		}
	}
	vpAssert(got == 2, "newcomer-gets-its-own-full-burst")
	vpReach("newcomer")
}
