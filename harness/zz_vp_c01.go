package absnfs

// C01 — file data read back through the server equals the data written.

func init() {
	vpRegister("VPH_C01_read_arith", VPH_C01_read_arith)
	vpRegister("VPH_C01_read_content", VPH_C01_read_content)
	vpRegister("VPH_C01_write_arith", VPH_C01_write_arith)
	vpRegister("VPH_C01_setattr_size", VPH_C01_setattr_size)
	vpRegister("VPH_C01_write_then_read", VPH_C01_write_then_read)
}

// vpCacheState puts the attribute cache for p in one of: no entry, a fresh entry that agrees with
// the backend (the coherence invariant the mutating operations maintain), an expired entry with
// arbitrary contents.
func vpCacheState(env *vpEnv, p string, size int64) {
	switch vpChoose("cache", 0, 2) {
	case 0:
		vpReach("cache-empty")
	case 1:
		vpReach("cache-fresh")
		a := &NFSAttrs{Mode: 0644, Size: size, FileId: vpFnv64a(p)}
		a.Refresh()
		env.nfs.attrCache.Put(p, a)
	case 2:
		vpReach("cache-expired")
		a := &NFSAttrs{Mode: 0644, Size: vpI64("stale-size"), FileId: vpFnv64a(p)}
		a.Refresh()
		env.nfs.attrCache.Put(p, a)
		vpSetClock(1_000_000_000 + int64(3600*1_000_000_000)) // an hour later: every entry has expired
	}
}

type vpReadReply struct {
	status, count, eof uint32
	size               uint64
	data               []byte
	ok                 bool
}

func vpDecodeRead(b []byte) vpReadReply {
	rd := &vpRd{b: b}
	r := vpReadReply{status: rd.u32()}
	a, follows := rd.postOp()
	if r.status != NFS_OK {
		return r
	}
	r.size = a.size
	r.count = rd.u32()
	r.eof = rd.u32()
	r.data = rd.opaque()
	r.ok = vpAnd(follows, rd.done())
	return r
}

// VPH_C01_read_arith: READ count / eof arithmetic at full width.
func VPH_C01_read_arith() {
	Tmax := 4
	if vpTier() == 1 {
		Tmax = 8
	}
	fs := vpNewFS()
	fs.addDir("/d")
	n := fs.addFile("/d/x", 0)
	S := vpI64("size")
	vpAssume(vpAnd(S >= 0, S < 1<<62))
	n.size = S
	var env *vpEnv
	var T int
	if vpBool("small-count-any-transfersize") {
		// any positive TransferSize (also set at run time); the requested count is small instead
		T = vpInt("transfersize")
		vpAssume(vpAnd(T > 0, T <= 1<<31))
		env = vpServer(fs, ExportOptions{})
		env.nfs.UpdateTuningOptions(func(t *TuningOptions) { t.TransferSize = T })
		vpReach("any-transfersize")
	} else {
		T = vpChoose("transfersize", 1, Tmax)
		env = vpServer(fs, ExportOptions{TransferSize: T})
		vpReach("small-transfersize")
	}
	h := env.handleFor("/d/x")
	env.clearCaches()
	vpCacheState(env, "/d/x", S)
	off := vpU64("offset")
	cnt := vpU32("count")
	if T > Tmax {
		vpAssume(cnt <= uint32(Tmax))
	}
	var b vpBuf
	b.fh(h).u64(off).u32(cnt)
	r := vpDecodeRead(vpReplyBytes(env.call(NFSPROC3_READ, b.Bytes())))
	vpObserve("status", r.status)
	if off < 1<<63 {
		vpAssert(r.status == NFS_OK, "read-in-range-ok")
	}
	if r.status != NFS_OK {
		return
	}
	vpReach("read-ok")
	vpAssert(r.ok, "reply-shape")
	// want = min(requested, transfer size, size - offset), 0 at or beyond EOF
	var want uint64
	if off >= uint64(S) {
		want = 0
	} else {
		want = uint64(S) - off
		if uint64(cnt) < want {
			want = uint64(cnt)
		}
		if uint64(T) < want {
			want = uint64(T)
		}
	}
	vpObserve("count", r.count)
	vpAssert(uint64(r.count) == want, "count-is-min-of-requested-transfer-remaining")
	vpAssert(len(r.data) == int(vpConcreteU64(uint64(r.count))), "data-length-equals-count")
	// eof exactly when offset + count reaches the file size (65-bit arithmetic via the two cases)
	reaches := vpOr(off >= uint64(S), uint64(r.count) >= uint64(S)-off)
	vpAssert((r.eof != 0) == reaches, "eof-iff-offset-plus-count-reaches-size")
	vpAssert(r.size == uint64(S), "reported-size-is-backend-size")
}

// VPH_C01_read_content: the bytes returned are the file's bytes at that range.
func VPH_C01_read_content() {
	N := 5
	if vpTier() == 1 {
		N = 7
	}
	n := vpChoose("filelen", 0, N)
	content := vpBytes("content", n)
	fs := vpNewFS()
	fs.addDir("/d")
	fs.addFileData("/d/x", append([]byte(nil), content...))
	T := vpChoose("transfersize", 1, 4)
	env := vpServer(fs, ExportOptions{TransferSize: T})
	h := env.handleFor("/d/x")
	off := vpChoose("offset", 0, N+1)
	cnt := vpChoose("count", 0, N+1)
	var b vpBuf
	b.fh(h).u64(uint64(off)).u32(uint32(cnt))
	r := vpDecodeRead(vpReplyBytes(env.call(NFSPROC3_READ, b.Bytes())))
	vpAssert(r.status == NFS_OK, "read-ok")
	vpAssert(r.ok, "reply-shape")
	want := 0
	if off < n {
		want = n - off
		if cnt < want {
			want = cnt
		}
		if T < want {
			want = T
		}
	}
	vpAssert(len(r.data) == want, "count")
	for i := 0; i < want && i < len(r.data); i++ {
		vpAssert(r.data[i] == content[off+i], "bytes-equal-file-content")
	}
	vpAssert((r.eof != 0) == (off+want >= n), "eof")
}

// VPH_C01_write_arith: a WRITE that replies NFS3_OK with count n has issued exactly one backend write of
// payload[:n] at its offset, the file size becomes max(size, offset+n), and no stale size stays cached.
func VPH_C01_write_arith() {
	Tmax, Lmax := 4, 5
	if vpTier() == 1 {
		Tmax, Lmax = 8, 9
	}
	fs := vpNewFS()
	fs.addDir("/d")
	n := fs.addFile("/d/x", 0)
	S := vpI64("size")
	vpAssume(vpAnd(S >= 0, S < 1<<62))
	n.size = S
	T := vpChoose("transfersize", 1, Tmax)
	env := vpServer(fs, ExportOptions{TransferSize: T})
	h := env.handleFor("/d/x")
	env.clearCaches()
	vpCacheState(env, "/d/x", S)
	off := vpU64("offset")
	L := vpChoose("len", 0, Lmax)
	payload := vpBytes("payload", L)
	var b vpBuf
	b.fh(h).u64(off).u32(uint32(L)).u32(vpU32("stable")).opaque(payload)
	env.fs.log = nil
	rd := &vpRd{b: vpReplyBytes(env.call(NFSPROC3_WRITE, b.Bytes()))}
	status := rd.u32()
	vpObserve("status", status)
	if vpAnd(L <= T, off < 1<<62) {
		vpAssert(status == NFS_OK, "write-in-range-ok")
	}
	if status != NFS_OK {
		// nothing stored: either the backend was never asked, or it refused the call itself (an end
		// offset beyond the largest file offset is EFBIG from pwrite) and the file is as it was
		vpAssert(vpAnd(env.fs.stored == 0, n.size == S), "failed-write-stores-nothing")
		if env.fs.count("WriteAt") != 0 {
			vpReach("backend-refused-write")
		}
		return
	}
	vpReach("write-ok")
	rd.wccData()
	cnt := int(vpConcreteU64(uint64(rd.u32())))
	rd.u32()
	rd.u64()
	vpAssert(rd.done(), "reply-shape")
	vpAssert(cnt <= L, "count-not-above-payload")
	vpAssert(cnt == L, "whole-payload-stored-within-transfer-size")
	vpAssert(env.fs.count("WriteAt") == 1, "exactly-one-backend-write")
	w := env.fs.last("WriteAt")
	vpAssert(w.path == "/d/x", "write-to-the-file")
	vpAssert(w.a == int64(off), "write-at-the-offset")
	vpAssert(len(w.data) == cnt, "write-length-is-count")
	for i := 0; i < cnt && i < len(w.data); i++ {
		vpAssert(w.data[i] == payload[i], "write-bytes-are-payload-prefix")
	}
	// size afterwards
	wantSize := S
	if cnt > 0 && int64(off)+int64(cnt) > S {
		wantSize = int64(off) + int64(cnt)
	}
	vpAssert(n.size == wantSize, "size-is-max-of-old-and-end")
	vpAssert(env.fs.count("Truncate")+env.fs.count("FTruncate") == 0, "no-other-data-mutation")
	// a following READ's eof decision reads the size from here: it must be current
	if a, found := env.nfs.attrCache.Get("/d/x"); found && a != nil {
		vpAssert(a.Size == n.size, "no-stale-size-cached-after-write")
	}
	if g, err := env.nfs.GetAttr(env.nfs.fileMap.handles[h].(*NFSNode)); err == nil {
		vpAssert(g.Size == n.size, "getattr-after-write-reports-current-size")
	}
}

// VPH_C01_setattr_size: SETATTR(size s) that succeeds has issued exactly Truncate(path, s).
func VPH_C01_setattr_size() {
	fs := vpNewFS()
	fs.addDir("/d")
	n := fs.addFile("/d/x", 0)
	S := vpI64("size")
	vpAssume(vpAnd(S >= 0, S < 1<<62))
	n.size = S
	env := vpServer(fs, ExportOptions{})
	h := env.handleFor("/d/x")
	env.clearCaches()
	vpCacheState(env, "/d/x", S)
	ns := vpU64("newsize")
	var b vpBuf
	b.fh(h).sattr(&vpSattr{setSize: true, size: ns}).u32(0)
	env.fs.log = nil
	rd := &vpRd{b: vpReplyBytes(env.call(NFSPROC3_SETATTR, b.Bytes()))}
	status := rd.u32()
	if ns < 1<<63 {
		vpAssert(status == NFS_OK, "setattr-size-ok")
	}
	if status != NFS_OK {
		vpAssert(n.size == S, "failed-setattr-leaves-size")
		return
	}
	vpReach("setattr-ok")
	vpAssert(env.fs.count("Truncate") == 1, "exactly-one-truncate")
	tr := env.fs.last("Truncate")
	vpAssert(vpAnd(tr.path == "/d/x", tr.a == int64(ns)), "truncate-to-requested-size")
	vpAssert(n.size == int64(ns), "size-is-requested")
	vpAssert(env.fs.count("WriteAt") == 0, "no-write")
	if a, found := env.nfs.attrCache.Get("/d/x"); found && a != nil {
		vpAssert(a.Size == n.size, "no-stale-size-cached-after-setattr")
	}
	_, post := rd.wccData()
	_ = post
}

// VPH_C01_write_then_read: a byte-array model across WRITE, SETATTR(size) and READ on a small file.
func VPH_C01_write_then_read() {
	steps := 1
	if vpTier() == 1 {
		steps = 2
	}
	n0 := vpChoose("filelen", 0, 2)
	model := vpBytes("content", n0)
	fs := vpNewFS()
	fs.addDir("/d")
	node := fs.addFileData("/d/x", append([]byte(nil), model...))
	env := vpServer(fs, ExportOptions{TransferSize: 4, AttrCacheTimeout: 0})
	h := env.handleFor("/d/x")
	hd := env.handleFor("/d")
	for s := 0; s < steps; s++ {
		kind := vpChoose("mutation", 0, 2)
		if kind == 2 {
			// CREATE (UNCHECKED) of the existing file with an explicit size: the file is cut or
			// zero-extended to that size, like SETATTR(size); without a size nothing would change
			vpReach("create-with-size")
			ns := vpChoose("createsize", 0, 3)
			var b vpBuf
			b.fh(hd).str("x").u32(0).sattr(&vpSattr{setSize: true, size: uint64(ns)})
			rd := &vpRd{b: vpReplyBytes(env.call(NFSPROC3_CREATE, b.Bytes()))}
			vpAssert(rd.u32() == NFS_OK, "create-existing-with-size-ok")
			for len(model) < ns {
				model = append(model, 0)
			}
			model = model[:ns]
		} else if kind == 1 {
			ns := vpChoose("newsize", 0, 3)
			var b vpBuf
			b.fh(h).sattr(&vpSattr{setSize: true, size: uint64(ns)}).u32(0)
			rd := &vpRd{b: vpReplyBytes(env.call(NFSPROC3_SETATTR, b.Bytes()))}
			vpAssert(rd.u32() == NFS_OK, "setattr-ok")
			for len(model) < ns {
				model = append(model, 0)
			}
			model = model[:ns]
		} else {
			off := vpChoose("woff", 0, 3)
			L := vpChoose("wlen", 0, 2)
			p := vpBytes("wdata", L)
			var b vpBuf
			b.fh(h).u64(uint64(off)).u32(uint32(L)).u32(0).opaque(p)
			rd := &vpRd{b: vpReplyBytes(env.call(NFSPROC3_WRITE, b.Bytes()))}
			vpAssert(rd.u32() == NFS_OK, "write-ok")
			if L > 0 {
				for len(model) < off+L {
					model = append(model, 0) // holes read as zeros
				}
				copy(model[off:], p)
			}
		}
	}
	// backend holds the model
	vpAssert(len(node.data) == len(model), "backend-size-equals-model")
	for i := range model {
		if i < len(node.data) {
			vpAssert(node.data[i] == model[i], "backend-bytes-equal-model")
		}
	}
	// and a READ of any range returns the model's bytes
	off := vpChoose("roff", 0, 5)
	cnt := vpChoose("rcount", 0, 5)
	var b vpBuf
	b.fh(h).u64(uint64(off)).u32(uint32(cnt))
	r := vpDecodeRead(vpReplyBytes(env.call(NFSPROC3_READ, b.Bytes())))
	vpAssert(r.status == NFS_OK, "read-ok")
	want := 0
	if off < len(model) {
		want = len(model) - off
		if cnt < want {
			want = cnt
		}
		if 4 < want {
			want = 4
		}
	}
	vpAssert(len(r.data) == want, "read-count")
	for i := 0; i < want && i < len(r.data); i++ {
		vpAssert(r.data[i] == model[off+i], "read-bytes-equal-model")
	}
	vpAssert((r.eof != 0) == (off+want >= len(model)), "read-eof")
}
