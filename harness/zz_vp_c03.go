package absnfs

import "syscall"

// C03 — CREATE never destroys or silently reuses an existing file.

func init() {
	vpRegister("VPH_C03_create_existing", VPH_C03_create_existing)
	vpRegister("VPH_C03_exclusive_retransmit", VPH_C03_exclusive_retransmit)
	vpRegister("VPH_C03_existing_survives_timeouts", VPH_C03_existing_survives_timeouts)
}

const (
	vpUnchecked = 0
	vpGuarded   = 1
	vpExclusive = 2
)

func vpCreateArgs(dir uint64, name string, how uint32, s *vpSattr, verf []byte) []byte {
	var b vpBuf
	b.fh(dir).str(name).u32(how)
	if how == vpExclusive {
		b.raw(verf)
	} else {
		b.sattr(s)
	}
	return b.Bytes()
}

// VPH_C03_create_existing: one CREATE of a name that already exists as a file with
// data, a directory or a symlink (or does not exist), in every mode, with every
// sattr3 combination of the menu and symbolic values.
func VPH_C03_create_existing() {
	fs := vpNewFS()
	fs.addDir("/d")
	kind := vpChoose("existing", 0, 4)
	switch kind {
	case 4:
		// an empty regular file, made a moment ago or long ago (nothing about an existing file -
		// its size, its age - makes a second CREATE "the same" create)
		n := fs.addFileData("/d/x", []byte{})
		n.mtime = []int64{1_600_000_000, 1_700_000_000, 1_700_000_001}[vpChoose("empty-file-mtime", 0, 2)] // old, a second ago, now
		vpReach("empty-file")
	case 0:
		fs.addAbsent("/d/x")
		vpReach("absent")
	case 1:
		fs.addFileData("/d/x", []byte("hello"))
		vpReach("file")
	case 2:
		fs.addDir("/d/x")
		vpReach("dir")
	case 3:
		fs.addFileData("/d/t", []byte("tgt"))
		fs.addLink("/d/x", "t")
		vpReach("symlink")
	}
	negcache := vpBool("negcache")
	env := vpServer(fs, ExportOptions{CacheNegativeLookups: negcache})
	hd := env.handleFor("/d")
	// The object may have appeared behind the server's back after a LOOKUP miss was cached (another
	// export of the same backend, a local process): the decision "does the name exist" is the
	// backend's, atomically with the creation, never the cache's.
	if negcache && kind != 0 && vpBool("stale-negative-entry") {
		env.nfs.attrCache.PutNegative("/d/x")
		vpReach("stale-negative-entry")
	}
	env.auth.EffectiveUID, env.auth.EffectiveGID = vpU32("euid"), vpU32("egid")
	g := &vpGen{}
	how := uint32(vpChoose("how", 0, 2))
	var s *vpSattr
	var verf []byte
	if how == vpExclusive {
		verf = vpBytes("verf", 8)
	} else {
		s = g.sattr("sattr")
		// a mode the server accepts (validateMode), so that the request is not refused for its mode
		s.mode &= 07777
	}
	// the backend may fail one open with a transient error (EINTR, EAGAIN) or a hard one (EIO):
	// whatever the server then does, it does not turn a create of an existing name into a success
	interrupted := false
	if kind != 0 && vpBool("one-open-fails") {
		interrupted = true
		env.fs.failOp, env.fs.failOnce = "OpenFile", true
		env.fs.failErr = vpErr("open", "/d/x", []syscall.Errno{syscall.EINTR, syscall.EAGAIN, syscall.EIO}[vpChoose("open-errno", 0, 2)])
		vpReach("one-open-fails")
	}
	env.fs.log = nil
	before := env.fs.snapshot()
	reply := env.call(NFSPROC3_CREATE, vpCreateArgs(hd, "x", how, s, verf))
	env.fs.failOp = ""
	vpAssert(reply != nil, "reply")
	rd := &vpRd{b: vpReplyBytes(reply)}
	status := rd.u32()
	vpObserve("status", status)
	after := env.fs.snapshot()
	exists := kind != 0
	setsSize := how != vpExclusive && s.setSize
	if interrupted {
		if how != vpUnchecked {
			vpAssert(status != NFS_OK, "guarded-or-exclusive-existing-fails-even-after-a-failed-open")
			vpAssert(after == before, "guarded-or-exclusive-existing-untouched-even-after-a-failed-open")
		}
		if kind == 1 && !setsSize {
			vpAssert(string(fs.nodes["/d/x"].data) == "hello", "existing-data-kept-even-after-a-failed-open")
		}
		return
	}

	if !exists {
		// creation of a fresh name works in every mode
		vpAssert(status == NFS_OK, "fresh-create-ok")
		return
	}
	switch how {
	case vpGuarded:
		vpKnown("K-C03-guarded-not-checked", true)
		vpAssert(status == NFSERR_EXIST, "guarded-existing-is-EXIST")
		vpAssert(after == before, "guarded-existing-untouched")
	case vpExclusive:
		// the existing object was not made by a CREATE with this verifier (fresh server)
		vpKnown("K-C03-exclusive-no-verifier", true)
		vpAssert(status == NFSERR_EXIST, "exclusive-existing-is-EXIST")
		vpKnownClear()
		vpAssert(after == before, "exclusive-existing-untouched")
	}
	vpKnownClear()
	if kind == 4 {
		return
	}
	if kind == 1 && !setsSize {
		// an existing regular file keeps its data unless the request sets size
		vpKnown("K-C03-create-truncates", true)
		n := fs.nodes["/d/x"]
		vpAssert(vpAnd(n.exists, string(n.data) == "hello"), "existing-data-kept")
		vpAssert(env.fs.count("Truncate")+env.fs.count("FTruncate") == 0, "no-truncate")
	}
	if kind == 3 && !setsSize {
		vpKnown("K-C03-create-truncates", true)
		vpAssert(string(fs.nodes["/d/t"].data) == "tgt", "symlink-target-data-kept")
	}
}

// VPH_C03_exclusive_retransmit: EXCLUSIVE create of a fresh name, then a second
// EXCLUSIVE create of the same name: success only for the same verifier.
func VPH_C03_exclusive_retransmit() {
	fs := vpNewFS()
	fs.addDir("/d")
	fs.addAbsent("/d/x")
	env := vpServer(fs, ExportOptions{})
	hd := env.handleFor("/d")
	v1, v2 := vpBytes("verf1", 8), vpBytes("verf2", 8)
	r1 := env.call(NFSPROC3_CREATE, vpCreateArgs(hd, "x", vpExclusive, nil, v1))
	rd1 := &vpRd{b: vpReplyBytes(r1)}
	vpAssert(rd1.u32() == NFS_OK, "first-exclusive-ok")
	// the client writes data, then a duplicate (or a different client's) CREATE arrives
	n := fs.nodes["/d/x"]
	n.data, n.size = []byte("data"), 4
	env.fs.log = nil
	r2 := env.call(NFSPROC3_CREATE, vpCreateArgs(hd, "x", vpExclusive, nil, v2))
	rd2 := &vpRd{b: vpReplyBytes(r2)}
	st2 := rd2.u32()
	same := string(v1) == string(v2)
	vpKnown("K-C03-exclusive-no-verifier", true)
	vpAssert(vpImplies(!same, st2 == NFSERR_EXIST), "different-verifier-is-EXIST")
	vpKnownClear()
	vpAssert(vpImplies(same, st2 == NFS_OK), "retransmission-succeeds")
	vpKnown("K-C03-create-truncates", true)
	vpAssert(string(fs.nodes["/d/x"].data) == "data", "data-kept-across-second-create")
}

// VPH_C03_existing_survives_timeouts: the same CREATE of an existing name, with the request's
// deadline allowed to pass at any of the points where the server looks at its context (a slow
// backend): whatever the reply then is, a GUARDED or EXCLUSIVE CREATE leaves the existing object
// untouched and no mode destroys an existing file's data unless the request sets size.
func VPH_C03_existing_survives_timeouts() {
	fs := vpNewFS()
	fs.addDir("/d")
	kind := vpChoose("existing", 1, 3)
	switch kind {
	case 1:
		fs.addFileData("/d/x", []byte("hello"))
	case 2:
		fs.addDir("/d/x")
	case 3:
		fs.addFileData("/d/t", []byte("tgt"))
		fs.addLink("/d/x", "t")
	}
	env := vpServer(fs, ExportOptions{})
	hd := env.handleFor("/d")
	how := uint32(vpChoose("how", 0, 2))
	var s *vpSattr
	var verf []byte
	if how == vpExclusive {
		verf = vpBytes("verf", 8)
	} else {
		s = &vpSattr{setMode: true, mode: 0644, setSize: vpBool("set-size"), size: vpU64("size") & 0xff}
	}
	env.fs.log = nil
	before := env.fs.snapshot()
	vpTimeoutsOn = true // from here on the request's deadline may pass at any look at the context
	reply := env.call(NFSPROC3_CREATE, vpCreateArgs(hd, "x", how, s, verf))
	vpTimeoutsOn = false
	vpAssert(reply != nil, "reply")
	rd := &vpRd{b: vpReplyBytes(reply)}
	status := rd.u32()
	vpObserve("status", status)
	if status != NFS_OK {
		vpReach("create-failed")
	}
	after := env.fs.snapshot()
	if how != vpUnchecked {
		vpAssert(after == before, "guarded-or-exclusive-leaves-existing-object-untouched-even-on-timeout")
	}
	if how == vpExclusive || !s.setSize {
		vpAssert(fs.nodes["/d/x"].exists, "existing-object-still-there")
		if kind == 1 {
			vpAssert(string(fs.nodes["/d/x"].data) == "hello", "existing-data-kept-even-on-timeout")
		}
		if kind == 3 {
			vpAssert(string(fs.nodes["/d/t"].data) == "tgt", "symlink-target-data-kept-even-on-timeout")
		}
	}
}
