package absnfs

// C07 — the backend only sees clean in-export paths; symlink targets stay contained.

func init() {
	vpRegister("VPH_C07_names", VPH_C07_names)
	vpRegister("VPH_C07_longnames", VPH_C07_longnames)
	vpRegister("VPH_C07_symlink_target", VPH_C07_symlink_target)
	vpRegister("VPH_C07_readlink", VPH_C07_readlink)
	vpRegister("VPH_C07_mount", VPH_C07_mount)
	vpRegister("VPH_C07_symlink_long_target", VPH_C07_symlink_long_target)
}

// vpValidComponent: non-empty, at most 255 bytes, no '/', '\', NUL, not "." or "..".
func vpValidComponent(c string) bool {
	if len(c) == 0 || len(c) > 255 {
		return false
	}
	ok := true
	for i := 0; i < len(c); i++ {
		ok = vpAnd(ok, vpAnd(c[i] != '/', vpAnd(c[i] != '\\', c[i] != 0)))
	}
	if len(c) == 1 {
		ok = vpAnd(ok, c[0] != '.')
	}
	if len(c) == 2 {
		ok = vpAnd(ok, vpNot(vpAnd(c[0] == '.', c[1] == '.')))
	}
	return ok
}

// vpPathOK: p is one of the handle paths, or a handle path joined with one validated component.
func vpPathOK(p string, handlePaths []string) bool {
	ok := false
	for _, hp := range handlePaths {
		ok = vpOr(ok, p == hp)
		pre := hp + "/"
		if hp == "/" {
			pre = "/"
		}
		if len(p) > len(pre) {
			ok = vpOr(ok, vpAnd(p[:len(pre)] == pre, vpValidComponent(p[len(pre):])))
		}
	}
	return ok
}

// vpLogPathsOK asserts the path discipline on every backend call recorded.
func vpLogPathsOK(fs *vpFS, handlePaths []string) {
	for _, c := range fs.log {
		if c.op == "Close" || c.op == "Sync" || c.op == "FStat" || c.op == "ReadAt" || c.op == "WriteAt" || c.op == "Readdir" || c.op == "FTruncate" {
			continue // file-level calls carry the path the file was opened with
		}
		vpAssert(vpPathOK(c.path, handlePaths), "backend-path-is-handle-path-or-handle-plus-validated-name")
		if c.op == "Rename" {
			vpAssert(vpPathOK(c.path2, handlePaths), "backend-rename-target-is-clean")
		}
	}
}

func vpNameProcArgs(sel int, hd uint64, name string) (uint32, []byte) {
	var b vpBuf
	s := &vpSattr{}
	switch sel {
	case 0:
		return NFSPROC3_LOOKUP, b.fh(hd).str(name).Bytes()
	case 1:
		return NFSPROC3_CREATE, b.fh(hd).str(name).u32(0).sattr(s).Bytes()
	case 2:
		return NFSPROC3_MKDIR, b.fh(hd).str(name).sattr(s).Bytes()
	case 3:
		return NFSPROC3_SYMLINK, b.fh(hd).str(name).sattr(s).str("x").Bytes()
	case 4:
		return NFSPROC3_MKNOD, b.fh(hd).str(name).u32(6).Bytes()
	case 5:
		return NFSPROC3_REMOVE, b.fh(hd).str(name).Bytes()
	case 6:
		return NFSPROC3_RMDIR, b.fh(hd).str(name).Bytes()
	case 7:
		return NFSPROC3_RENAME, b.fh(hd).str(name).fh(hd).str("y").Bytes()
	case 8:
		return NFSPROC3_RENAME, b.fh(hd).str("x").fh(hd).str(name).Bytes()
	default:
		return NFSPROC3_LINK, b.fh(hd).fh(hd).str(name).Bytes()
	}
}

// VPH_C07_names: every name-taking procedure with a fully symbolic name (all 256 byte values).
func VPH_C07_names() {
	N := 3
	if vpTier() == 1 {
		N = 4 // 5 did not finish in two hours (growth is about 4x per byte)
	}
	fs := vpStdTree()
	env := vpServer(fs, ExportOptions{})
	hd := env.handleFor("/d")
	name := vpStr("name", vpChoose("len", 0, N))
	proc, args := vpNameProcArgs(vpChoose("proc", 0, 9), hd, name)
	env.fs.log = nil
	reply := env.call(proc, args)
	vpAssert(reply != nil, "reply")
	vpLogPathsOK(env.fs, []string{"/", "/d"})
	rd := &vpRd{b: vpReplyBytes(reply)}
	if rd.u32() == NFS_OK {
		vpReach("accepted")
	} else {
		vpReach("refused")
	}
}

// VPH_C07_longnames: lengths around the 255-byte limit.
func VPH_C07_longnames() {
	fs := vpStdTree()
	env := vpServer(fs, ExportOptions{})
	hd := env.handleFor("/d")
	total := vpChoose("len", 254, 256)
	nsym := 2
	sym := vpStr("tail", nsym)
	fill := make([]byte, total-nsym)
	for i := range fill {
		fill[i] = 'n'
	}
	name := string(fill) + sym
	proc, args := vpNameProcArgs(vpChoose("proc", 0, 9), hd, name)
	env.fs.log = nil
	reply := env.call(proc, args)
	vpAssert(reply != nil, "reply")
	vpLogPathsOK(env.fs, []string{"/", "/d"})
	if total > 255 {
		// nothing may reach the backend under a 256-byte component
		for _, c := range env.fs.log {
			vpAssert(len(c.path) <= len("/d/")+255, "over-long-component-never-reaches-backend")
		}
		vpReach("too-long")
	}
}

// vpHasDotDot: some '/'-separated component of t is "..".
func vpHasDotDot(t string) bool {
	has := false
	for i := 0; i+1 < len(t); i++ {
		start := i == 0
		if i > 0 {
			start = t[i-1] == '/'
		}
		end := i+2 == len(t)
		if i+2 < len(t) {
			end = t[i+2] == '/'
		}
		has = vpOr(has, vpAnd(vpAnd(start, end), vpAnd(t[i] == '.', t[i+1] == '.')))
	}
	return has
}

// VPH_C07_symlink_target: no symlink created through the server has an absolute target or a ".." component.
func VPH_C07_symlink_target() {
	M := 4
	if vpTier() == 1 {
		M = 6
	}
	fs := vpStdTree()
	env := vpServer(fs, ExportOptions{})
	hd := env.handleFor("/d")
	target := vpStr("target", vpChoose("len", 0, M))
	for i := 0; i < len(target); i++ {
		vpAssume(target[i] != 0) // XDR strings with NUL are refused by the decoder (C13)
	}
	var b vpBuf
	b.fh(hd).str("new").sattr(&vpSattr{}).str(target)
	env.fs.log = nil
	rd := &vpRd{b: vpReplyBytes(env.call(NFSPROC3_SYMLINK, b.Bytes()))}
	st := rd.u32()
	for _, c := range env.fs.log {
		if c.op == "Symlink" {
			vpReach("symlink-created")
			t := c.path2
			vpAssert(len(t) > 0, "target-non-empty")
			if len(t) > 0 {
				vpAssert(t[0] != '/', "target-not-absolute")
			}
			vpAssert(!vpHasDotDot(t), "target-without-dotdot-component")
			vpAssert(t == target, "target-stored-verbatim")
		}
	}
	if st != NFS_OK {
		vpReach("refused")
	}
	vpLogPathsOK(env.fs, []string{"/", "/d"})
}

// VPH_C07_symlink_long_target: the same for targets of many components: n ordinary components
// "a/" (every n up to the bound) followed by up to three arbitrary bytes, so that a ".." can sit at
// any depth and any rule that stops looking after some number of components or bytes is crossed.
func VPH_C07_symlink_long_target() {
	N := 130
	if vpTier() == 1 {
		N = 300
	}
	fs := vpStdTree()
	env := vpServer(fs, ExportOptions{})
	hd := env.handleFor("/d")
	n := vpChoose("components", 1, N)
	prefix := make([]byte, 0, 2*n)
	for i := 0; i < n; i++ {
		prefix = append(prefix, 'a', '/')
	}
	tail := vpStr("tail", vpChoose("taillen", 2, 3))
	for i := 0; i < len(tail); i++ {
		vpAssume(tail[i] != 0)
	}
	target := string(prefix) + tail
	var b vpBuf
	b.fh(hd).str("new").sattr(&vpSattr{}).str(target)
	env.fs.log = nil
	rd := &vpRd{b: vpReplyBytes(env.call(NFSPROC3_SYMLINK, b.Bytes()))}
	st := rd.u32()
	for _, c := range env.fs.log {
		if c.op == "Symlink" {
			vpReach("symlink-created")
			vpAssert(!vpHasDotDot(c.path2), "long-target-without-dotdot-component")
			vpAssert(c.path2 == target, "long-target-stored-verbatim")
		}
	}
	if st != NFS_OK {
		vpReach("refused")
	}
}

// VPH_C07_readlink: READLINK never returns a relative target containing "..".
func VPH_C07_readlink() {
	M := 4
	if vpTier() == 1 {
		M = 6
	}
	fs := vpStdTree()
	target := vpStr("target", vpChoose("len", 1, M))
	for i := 0; i < len(target); i++ {
		vpAssume(target[i] != 0)
	}
	fs.addLink("/d/k", target)
	env := vpServer(fs, ExportOptions{})
	hk := env.handleFor("/d/k")
	var b vpBuf
	b.fh(hk)
	rd := &vpRd{b: vpReplyBytes(env.call(NFSPROC3_READLINK, b.Bytes()))}
	st := rd.u32()
	if st == NFS_OK {
		vpReach("readlink-ok")
		rd.postOp()
		got := string(rd.opaque())
		vpAssert(rd.done(), "reply-shape")
		vpAssert(got == target, "target-returned-verbatim")
		if len(got) > 0 {
			vpAssert(vpOr(got[0] == '/', !vpHasDotDot(got)), "relative-target-without-dotdot")
		}
	} else {
		vpReach("readlink-refused")
		// refusing is only justified for a relative target with a ".." component
		vpAssert(vpAnd(target[0] != '/', vpHasDotDot(target)), "only-dotdot-targets-refused")
	}
}

// VPH_C07_mount: whatever path MNT is given, the backend sees an absolute, normalised path.
func VPH_C07_mount() {
	M := 3
	if vpTier() == 1 {
		M = 4
	}
	fs := vpStdTree()
	env := vpServer(fs, ExportOptions{})
	p := vpStr("path", vpChoose("len", 0, M))
	for i := 0; i < len(p); i++ {
		vpAssume(p[i] != 0)
	}
	var b vpBuf
	b.str(p)
	call := &RPCCall{Header: RPCMsgHeader{Xid: 9, Program: MOUNT_PROGRAM, Version: MOUNT_V3, Procedure: 1}}
	reply := &RPCReply{Header: call.Header}
	env.fs.log = nil
	_, err := env.h.handleMountCall(call, &b.Buffer, reply, env.auth)
	vpAssert(err == nil, "no-error")
	for _, c := range env.fs.log {
		q := c.path
		vpAssert(len(q) > 0, "mount-path-non-empty")
		if len(q) > 0 {
			vpAssert(q[0] == '/', "mount-path-absolute")
			// normalised: no empty, "." or ".." components, no trailing slash except the root
			norm := true
			for i := 0; i < len(q); i++ {
				if i > 0 {
					norm = vpAnd(norm, vpNot(vpAnd(q[i-1] == '/', q[i] == '/')))
				}
			}
			if len(q) > 1 {
				norm = vpAnd(norm, q[len(q)-1] != '/')
			}
			vpAssert(norm, "mount-path-no-empty-components")
			vpAssert(!vpHasDotDot(q), "mount-path-without-dotdot")
		}
	}
}
