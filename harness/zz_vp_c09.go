package absnfs

// C09 — host filtering and the secure-port rule gate every request.

import (
	"bytes"
	"fmt"
)

func init() {
	vpRegister("VPH_C09_filter", VPH_C09_filter)
	vpRegister("VPH_C09_gate", VPH_C09_gate)
	vpRegister("VPH_C09_textual", VPH_C09_textual)
	vpRegister("VPH_C09_open_connection", VPH_C09_open_connection)
}

// VPH_C09_open_connection: the host filter and the secure-port rule are applied to every request,
// not once per connection: a client whose connection was opened while it was admitted is refused
// from the first call after an update that excludes it (real connection loop, update between two
// calls of one connection; shared with C16's harness).
func VPH_C09_open_connection() { vpUpdateBetweenCalls([]int{1, 2}) }

func vpMapped(b []byte) bool {
	ok := true
	for i := 0; i < 10; i++ {
		ok = vpAnd(ok, b[i] == 0)
	}
	return vpAnd(ok, vpAnd(b[10] == 0xff, b[11] == 0xff))
}

// vpMaskByte: byte i of a prefix mask of n bits.
func vpMaskByte(n int, i int) byte {
	bits := n - 8*i
	bits = vpIteInt(bits < 0, 0, bits)
	bits = vpIteInt(bits > 8, 8, bits)
	return byte(0xff) << uint(8-bits)
}

type vpAllowEntry struct {
	kind  int // 0 bad single, 1 single, 2 bad CIDR, 3 IPv4 CIDR, 4 IPv6 CIDR
	addr  []byte
	n     int
	token string
}

func vpAllowEntryDraw(tag string) *vpAllowEntry {
	e := &vpAllowEntry{kind: vpChoose(tag+".kind", 0, 4)}
	switch e.kind {
	case 0:
		e.token = vpBadToken(tag, false)
	case 1:
		e.addr = vpBytes(tag+".addr", 16)
		e.token = vpIPToken(tag, e.addr)
	case 2:
		e.token = vpBadToken(tag, true)
	case 3:
		base := vpBytes(tag+".base4", 4)
		e.n = vpInt(tag + ".bits")
		vpAssume(vpAnd(e.n >= 0, e.n <= 32))
		mask := make([]byte, 4)
		netIP := make([]byte, 4)
		for i := 0; i < 4; i++ {
			mask[i] = vpMaskByte(e.n, i)
			netIP[i] = base[i] & mask[i]
		}
		e.addr = base
		ip16 := append([]byte{0, 0, 0, 0, 0, 0, 0, 0, 0, 0, 0xff, 0xff}, base...)
		text := ""
		if !vpSymbolic() {
			text = fmt.Sprintf("%d.%d.%d.%d/%d", base[0], base[1], base[2], base[3], e.n)
		}
		e.token = vpCIDRToken(tag, ip16, netIP, mask, text)
	case 4:
		base := vpBytes(tag+".base16", 16)
		e.n = vpInt(tag + ".bits")
		vpAssume(vpAnd(e.n >= 0, e.n <= 128))
		mask := make([]byte, 16)
		netIP := make([]byte, 16)
		for i := 0; i < 16; i++ {
			mask[i] = vpMaskByte(e.n, i)
			netIP[i] = base[i] & mask[i]
		}
		e.addr = base
		text := ""
		if !vpSymbolic() {
			text = fmt.Sprintf("%s/%d", vpHex16(base), e.n)
		}
		e.token = vpCIDRToken(tag, base, netIP, mask, text)
	}
	return e
}

// matches: the membership rule of the statement (family-aware after IPv4-mapped normalisation).
func (e *vpAllowEntry) matches(c []byte) bool {
	cm := vpMapped(c)
	switch e.kind {
	case 1:
		am := vpMapped(e.addr)
		eq4 := bytes.Equal(c[12:], e.addr[12:])
		eq16 := bytes.Equal(c, e.addr)
		return vpOr(vpAnd(vpAnd(cm, am), eq4), vpAnd(vpAnd(!cm, !am), eq16))
	case 3:
		ok := cm
		for i := 0; i < 4; i++ {
			m := vpMaskByte(e.n, i)
			ok = vpAnd(ok, c[12+i]&m == e.addr[i]&m)
		}
		return ok
	case 4:
		masked := make([]byte, 16)
		for i := 0; i < 16; i++ {
			masked[i] = e.addr[i] & vpMaskByte(e.n, i)
		}
		nm := vpMapped(masked)
		in4, in16 := true, true
		for i := 0; i < 16; i++ {
			m := vpMaskByte(e.n, i)
			in16 = vpAnd(in16, c[i]&m == masked[i])
			if i >= 12 {
				in4 = vpAnd(in4, c[i]&m == masked[i])
			}
		}
		return vpOr(vpAnd(vpAnd(nm, cm), in4), vpAnd(vpAnd(!nm, !cm), in16))
	}
	return false
}

// VPH_C09_filter: both filter functions agree with each other and with the membership rule.
func VPH_C09_filter() {
	L := 1
	if vpTier() == 1 {
		L = 2
	}
	n := vpChoose("entries", 1, L)
	var entries []*vpAllowEntry
	var list []string
	for i := 0; i < n; i++ {
		e := vpAllowEntryDraw(fmt.Sprintf("e%d", i))
		entries = append(entries, e)
		list = append(list, e.token)
	}
	var client []byte
	clientTok := ""
	if vpBool("client-unparsable") {
		clientTok = vpBadToken("client", false)
		vpReach("client-unparsable")
	} else {
		client = vpBytes("client", 16)
		clientTok = vpIPToken("client", client)
		vpReach("client-parsed")
	}
	want := false
	if client != nil {
		for _, e := range entries {
			want = vpOr(want, e.matches(client))
		}
	}
	got := isIPAllowed(clientTok, list)
	fs := vpNewFS()
	env := vpServer(fs, ExportOptions{AllowedIPs: list})
	got2 := env.srv.isIPAllowed(clientTok)
	vpObserve("request-filter", got)
	vpObserve("connection-filter", got2)
	vpAssert(got == got2, "both-filters-agree")
	vpAssert(got == want, "filter-equals-membership-rule")
}

// VPH_C09_gate: a request that the address filter or the secure-port rule rejects gets MSG_DENIED and
// reaches no handler or backend call; an accepted one is dispatched.
func VPH_C09_gate() {
	e := vpAllowEntryDraw("e0")
	client := vpBytes("client", 16)
	clientTok := vpIPToken("client", client)
	secure := vpBool("secure")
	port := vpInt("port")
	useList := vpBool("allow-list")
	opts := ExportOptions{Secure: secure}
	if useList {
		opts.AllowedIPs = []string{e.token}
	}
	fs := vpStdTree()
	// the policy is in force whether it was given at construction or installed at run time
	var env *vpEnv
	switch vpChoose("install", 0, 2) {
	case 0:
		vpReach("policy-at-construction")
		env = vpServer(fs, opts)
	case 1:
		vpReach("policy-by-UpdateExportOptions")
		env = vpServer(fs, ExportOptions{})
		cur := env.nfs.GetExportOptions()
		cur.Secure = opts.Secure
		cur.AllowedIPs = opts.AllowedIPs
		vpAssert(env.nfs.UpdateExportOptions(cur) == nil, "runtime-update-accepted")
	default:
		vpReach("policy-by-UpdatePolicyOptions")
		env = vpServer(fs, ExportOptions{})
		pol := *env.nfs.policy.Load()
		pol.Secure = opts.Secure
		pol.AllowedIPs = opts.AllowedIPs
		vpAssert(env.nfs.UpdatePolicyOptions(pol) == nil, "runtime-policy-update-accepted")
	}
	h := env.handleFor("/d")
	env.fs.log = nil
	allowedAddr := vpOr(!useList, e.matches(client))
	allowedPort := vpOr(!secure, vpAnd(port >= 0, port < 1024))
	// ports are 0..65535 on real connections; negative values cannot occur
	vpAssume(vpAnd(port >= 0, port <= 65535))
	var b vpBuf
	prog := uint32(NFS_PROGRAM)
	proc := uint32(NFSPROC3_GETATTR)
	if vpBool("mount-program") {
		prog, proc = MOUNT_PROGRAM, 1
		b.str("/")
	} else {
		b.fh(h)
	}
	call := &RPCCall{Header: RPCMsgHeader{Xid: vpU32("xid"), MsgType: RPC_CALL, RPCVersion: 2, Program: prog, Version: 3, Procedure: proc},
		Credential: RPCCredential{Flavor: AUTH_NONE}}
	auth := &AuthContext{ClientIP: clientTok, ClientPort: port, Credential: &call.Credential}
	reply, err := env.h.HandleCall(call, bytes.NewReader(b.Bytes()), auth)
	vpAssert(err == nil, "no-error")
	vpAssert(reply != nil, "reply")
	if vpAnd(allowedAddr, allowedPort) {
		vpReach("accepted")
		vpAssert(reply.Status == MSG_ACCEPTED, "allowed-request-accepted")
		vpAssert(len(env.fs.log) > 0, "allowed-request-dispatched")
	} else {
		vpReach("rejected")
		vpAssert(reply.Status == MSG_DENIED, "rejected-request-is-MSG_DENIED")
		vpAssert(len(env.fs.log) == 0, "rejected-request-reaches-no-backend-call")
	}
	vpAssert(reply.Header.Xid == call.Header.Xid, "xid-echoed")
}

// VPH_C09_textual: the same membership rule over *textual* allow-list entries and client addresses
// (menus of spellings: dotted quads, IPv4-mapped IPv6 in both notations, plain IPv6, networks of both
// families and of every boundary prefix length, malformed entries), with the real net.ParseIP and
// net.ParseCIDR: both filters agree with each other and with the rule applied to the parsed bytes.
// (The symbolic harnesses stub the parsers; code that rewrites the entry's text before parsing it is
// only visible here.)
type vpTextEntry struct {
	text string
	e    vpAllowEntry
}

func vpV4(a, b, c, d byte) []byte { return []byte{0, 0, 0, 0, 0, 0, 0, 0, 0, 0, 0xff, 0xff, a, b, c, d} }

func VPH_C09_textual() {
	v6 := func(hi, lo uint64) []byte {
		b := make([]byte, 16)
		for i := 0; i < 8; i++ {
			b[i] = byte(hi >> uint(56-8*i))
			b[8+i] = byte(lo >> uint(56-8*i))
		}
		return b
	}
	entries := []vpTextEntry{
		{"10.0.0.5", vpAllowEntry{kind: 1, addr: vpV4(10, 0, 0, 5)}},
		{"::ffff:10.0.0.5", vpAllowEntry{kind: 1, addr: vpV4(10, 0, 0, 5)}},
		{"::ffff:a00:5", vpAllowEntry{kind: 1, addr: vpV4(10, 0, 0, 5)}},
		{"2001:db8::1", vpAllowEntry{kind: 1, addr: v6(0x20010db800000000, 1)}},
		{"::1", vpAllowEntry{kind: 1, addr: v6(0, 1)}},
		{"10.0.0.0/8", vpAllowEntry{kind: 3, addr: []byte{10, 0, 0, 0}, n: 8}},
		{"10.0.0.5/32", vpAllowEntry{kind: 3, addr: []byte{10, 0, 0, 5}, n: 32}},
		{"0.0.0.0/0", vpAllowEntry{kind: 3, addr: []byte{0, 0, 0, 0}, n: 0}},
		{"2001:db8::/32", vpAllowEntry{kind: 4, addr: v6(0x20010db800000000, 0), n: 32}},
		{"::/0", vpAllowEntry{kind: 4, addr: v6(0, 0), n: 0}},
		{"::1/128", vpAllowEntry{kind: 4, addr: v6(0, 1), n: 128}},
		{"10.0.0.5/33", vpAllowEntry{kind: 2}},
		{"not-an-address", vpAllowEntry{kind: 0}},
		{"", vpAllowEntry{kind: 0}},
	}
	type client struct {
		text string
		ip   []byte
	}
	clients := []client{
		{"10.0.0.5", vpV4(10, 0, 0, 5)}, {"::ffff:10.0.0.5", vpV4(10, 0, 0, 5)}, {"10.1.2.3", vpV4(10, 1, 2, 3)},
		{"11.0.0.1", vpV4(11, 0, 0, 1)}, {"::1", v6(0, 1)}, {"::2", v6(0, 2)}, {"0:0:1::1", v6(0x0000000000010000, 1)},
		{"2001:db8::7", v6(0x20010db800000000, 7)}, {"2001:db9::7", v6(0x20010db900000000, 7)}, {"garbage", nil},
	}
	n := vpChoose("entries", 1, 2)
	var list []string
	var es []*vpAllowEntry
	for i := 0; i < n; i++ {
		t := entries[vpChoose("entry", 0, len(entries)-1)]
		list = append(list, t.text)
		e := t.e
		es = append(es, &e)
	}
	c := clients[vpChoose("client", 0, len(clients)-1)]
	want := false
	if c.ip != nil {
		for _, e := range es {
			want = vpOr(want, e.matches(c.ip))
		}
	}
	got := isIPAllowed(c.text, list)
	env := vpServer(vpNewFS(), ExportOptions{AllowedIPs: list})
	got2 := env.srv.isIPAllowed(c.text)
	vpObserve("request-filter", got)
	vpObserve("connection-filter", got2)
	vpAssert(got == got2, "textual-both-filters-agree")
	vpAssert(got == want, "textual-filter-equals-membership-rule")
}
