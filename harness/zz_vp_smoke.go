package absnfs

import (
	"bytes"
)

func init() {
	vpRegister("VPH_smoke_concrete", VPH_smoke_concrete)
	vpRegister("VPH_smoke_sym", VPH_smoke_sym)
}

// concrete run through several real functions
func VPH_smoke_concrete() {
	vpObserve("validate_ok", validateFilename("abc"))
	vpObserve("validate_dot", validateFilename(".."))
	p, err := sanitizePath("/d", "x")
	vpObserve("sanitize", p)
	vpObserve("sanitize_err", err == nil)
	var buf bytes.Buffer
	xdrEncodeString(&buf, "hello")
	xdrEncodeUint32(&buf, 77)
	s, err := xdrDecodeString(bytes.NewReader(buf.Bytes()))
	vpObserve("decoded", s)
	vpObserve("decoded_err", err == nil)
	vpObserve("mode", validateMode(0755, false))
}

func VPH_smoke_sym() {
	v := vpU32("v")
	var buf bytes.Buffer
	xdrEncodeUint32(&buf, v)
	r := bytes.NewReader(buf.Bytes())
	got, err := xdrDecodeUint32(r)
	vpAssert(err == nil, "noerr")
	vpAssert(got == v, "roundtrip")
	if v > 100 {
		vpReach("big")
		vpAssert(got > 100, "big")
	} else {
		vpReach("small")
	}
}
