#!/bin/bash
# sweep.sh [tier] [from-id] : every registered check once, sequentially, evidence removed first; summary at the end
cd "$(dirname "$0")"
TIER="${1:-quick}"
FROM="${2:-}"
export VERIF_SEED=1
ids=$(python3 -c "import json;print(' '.join(c['property_id'] for c in json.load(open('MANIFEST.json'))['checks']))")
mkdir -p /tmp/sweep
for id in $ids; do
  if [ -n "$FROM" ] && [[ "$id" < "$FROM" ]]; then continue; fi
  rm -f evidence/$id.json
  s=$(date +%s)
  ./check $id --tier $TIER > /tmp/sweep/$id.$TIER.log 2>&1
  e=$?
  echo "$id exit=$e $(( $(date +%s) - s ))s $(grep -c '^KNOWN-FINDING' /tmp/sweep/$id.$TIER.log) known $(grep -m1 -E '^(VIOLATION|INCONCLUSIVE)' /tmp/sweep/$id.$TIER.log | cut -c1-160)"
done
