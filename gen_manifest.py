#!/usr/bin/env python3
"""Regenerates MANIFEST.json from manifest_src.json (claims) + properties.jsonl."""
import json, sys
src = json.load(open('manifest_src.json'))
props = [json.loads(l) for l in open('properties.jsonl')]
checks = []
na = []
for p in props:
    pid = p['id']
    c = src['claims'].get(pid)
    if c:
        checks.append({
            "property_id": pid,
            "quick_cmd": f"./check {pid} --tier quick",
            "thorough_cmd": f"./check {pid} --tier thorough",
            "evidence_file": f"/verif/evidence/{pid}.json",
            "replay_cmd_template": f"./check {pid} --replay {{path}}",
            "engine": "symgo",
            "level_claimed": {"category": "model_checking", "text": c['text'], "design_ref": c.get('design_ref', 'DESIGN.md section 4')},
            "level_note": c['note'],
            "technique": c.get('technique', "bounded symbolic execution of the real go/ssa + SMT (z3) queries per path; counterexamples replayed natively"),
        })
    else:
        na.append({"property_id": pid, "reason": src['not_applicable'].get(pid, "no solver-based check registered yet")})
m = {
    "version": 1,
    "setup_cmd": "cd /verif/engine && GOFLAGS=-mod=mod GOPROXY=off GOSUMDB=off GOTOOLCHAIN=local go build -o /verif/bin/vcheck ./cmd/vcheck",
    "hooks": {"guard": "verif", "enable": "no in-tree hooks: harness files are injected as /repo/zz_vp_*.go through a go/packages overlay (engine) and go test -overlay (native replay)", "baseline_off_cmd": "cd /repo && go test -vet=off -count=1 -timeout 25m ./...", "source_commits": src.get('hook_commits', []), "add_only": True},
    "engines": [{"name": "symgo", "path": "/verif/engine", "serves_properties": [c['property_id'] for c in checks], "kind_free_text": "bounded symbolic executor over go/ssa (fork of x/tools go/ssa/interp) with SMT-LIB2 back end (z3 4.8.12; z3 5.1.0 cross-check), native replay of models via go test -overlay"}],
    "checks": checks,
    "notes": src.get('notes', ''),
    "not_applicable": na,
}
json.dump(m, open('MANIFEST.json', 'w'), indent=1)
print(f"{len(checks)} checks, {len(na)} not applicable")
