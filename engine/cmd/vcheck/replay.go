package main

// Native replay: the harness files are compiled into the real package with
// `go test -c -overlay`, and solver models (tapes) are run against the real
// build. Sources are compiled from /repo's working tree; time.Now/time.Since
// in non-test files are textually redirected to the harness clock in the
// overlay copies (never written to /repo).

import (
	"bytes"
	"encoding/json"
	"fmt"
	"os"
	"os/exec"
	"path/filepath"
	"regexp"
	"strings"
	"sync"
	"time"
)

type replayer struct {
	repo    string
	hdir    string
	tmp     string
	bin     string
	buildMu sync.Mutex
	built   bool
	err     error
	buildS  float64
	overlay string
	known   string // listed known-finding ids, comma separated
}

func newReplayer(repo, hdir string) (*replayer, error) {
	tmp, err := os.MkdirTemp("", "vpreplay-")
	if err != nil {
		return nil, err
	}
	return &replayer{repo: repo, hdir: hdir, tmp: tmp}, nil
}

func (r *replayer) cleanup() {
	if r.tmp != "" {
		os.RemoveAll(r.tmp)
	}
}

var reNow = regexp.MustCompile(`\btime\.Now\(\)`)
var reSince = regexp.MustCompile(`\btime\.Since\(`)
var reListen = regexp.MustCompile(`\bnet\.Listen\(`)
var reTimeout = regexp.MustCompile(`\bcontext\.WithTimeout\(`)
var reTLSListen = regexp.MustCompile(`\btls\.Listen\(`)

// writeOverlay prepares the overlay JSON (harness files + clock-redirected sources).
func (r *replayer) writeOverlay(dir string) (string, error) {
	repl := map[string]string{}
	files, _ := filepath.Glob(filepath.Join(r.hdir, "zz_vp_*.go"))
	for _, f := range files {
		base := filepath.Base(f)
		if strings.HasSuffix(base, "_test.go") {
			continue
		}
		repl[filepath.Join(r.repo, base)] = f
	}
	if tf := filepath.Join(r.hdir, "zz_vp_replay_test.go.txt"); fileExists(tf) {
		repl[filepath.Join(r.repo, "zz_vp_replay_test.go")] = tf
	}
	srcs, _ := filepath.Glob(filepath.Join(r.repo, "*.go"))
	for _, f := range srcs {
		base := filepath.Base(f)
		if strings.HasSuffix(base, "_test.go") || strings.HasPrefix(base, "zz_vp_") {
			continue
		}
		b, err := os.ReadFile(f)
		if err != nil {
			return "", err
		}
		if !reNow.Match(b) && !reSince.Match(b) && !reListen.Match(b) && !reTimeout.Match(b) && !reTLSListen.Match(b) {
			continue
		}
		nb := reNow.ReplaceAll(b, []byte("vpNow()"))
		nb = reSince.ReplaceAll(nb, []byte("vpSince("))
		// net.Listen goes through the harness, which hands out its stub listener when one is
		// installed (C28) and calls the real net.Listen otherwise
		nb = reListen.ReplaceAll(nb, []byte("vpNetListen("))
		// request contexts go through the harness too (symbolic deadlines, tape-driven natively)
		nb = reTimeout.ReplaceAll(nb, []byte("vpWithTimeout("))
		if reTLSListen.Match(nb) {
			nb = reTLSListen.ReplaceAll(nb, []byte("vpTLSListen("))
			nb = append(nb, []byte("\nvar _ = tls.VersionTLS12 // keeps the import used after the redirection\n")...)
		}
		if reNow.Match(b) || reSince.Match(b) {
			nb = append(nb, []byte("\nvar _ time.Duration // keeps the import used after the clock redirection\n")...)
		}
		out := filepath.Join(dir, "clk_"+base)
		if err := os.WriteFile(out, nb, 0o644); err != nil {
			return "", err
		}
		repl[f] = out
	}
	ov := map[string]interface{}{"Replace": repl}
	b, _ := json.MarshalIndent(ov, "", " ")
	p := filepath.Join(dir, "overlay.json")
	if err := os.WriteFile(p, b, 0o644); err != nil {
		return "", err
	}
	return p, nil
}

func fileExists(p string) bool {
	_, err := os.Stat(p)
	return err == nil
}

func goEnv() []string {
	env := os.Environ()
	env = append(env, "GOFLAGS=-mod=mod", "GOPROXY=off", "GOSUMDB=off", "GOTOOLCHAIN=local")
	return env
}

func (r *replayer) build() error {
	r.buildMu.Lock()
	defer r.buildMu.Unlock()
	if r.built {
		return r.err
	}
	r.built = true
	t0 := time.Now()
	ov, err := r.writeOverlay(r.tmp)
	if err != nil {
		r.err = err
		return err
	}
	r.overlay = ov
	r.bin = filepath.Join(r.tmp, "replay.test")
	cmd := exec.Command("go", "test", "-c", "-vet=off", "-overlay", ov, "-o", r.bin, ".")
	cmd.Dir = r.repo
	cmd.Env = goEnv()
	out, err := cmd.CombinedOutput()
	r.buildS = time.Since(t0).Seconds()
	if err != nil {
		r.err = fmt.Errorf("native replay build failed: %v\n%s", err, tail(string(out), 4000))
	}
	return r.err
}

func tail(s string, n int) string {
	if len(s) > n {
		return s[len(s)-n:]
	}
	return s
}

type replayResult struct {
	Outcome    string
	KnownFails []string
	Observed   []string
	Reached    []string
	Raw        string
}

type tapeFile struct {
	Vals map[string]uint64 `json:"vals"`
	Tier int               `json:"tier"`
}

var replaySeq int
var replaySeqMu sync.Mutex

// run executes one tape against the native build.
func (r *replayer) run(harness string, tape map[string]uint64, tier int) (*replayResult, error) {
	if err := r.build(); err != nil {
		return nil, err
	}
	replaySeqMu.Lock()
	replaySeq++
	n := replaySeq
	replaySeqMu.Unlock()
	tp := filepath.Join(r.tmp, fmt.Sprintf("tape-%d.json", n))
	b, _ := json.Marshal(tapeFile{Vals: tape, Tier: tier})
	if err := os.WriteFile(tp, b, 0o644); err != nil {
		return nil, err
	}
	defer os.Remove(tp)
	cmd := exec.Command(r.bin, "-test.run", "^TestVPReplay$", "-test.count=1", "-test.timeout=120s")
	cmd.Dir = r.repo
	cmd.Env = append(os.Environ(), "VP_TAPE="+tp, "VP_HARNESS="+harness, "VP_KNOWN="+r.known)
	var out bytes.Buffer
	cmd.Stdout = &out
	cmd.Stderr = &out
	_ = cmd.Run()
	res := &replayResult{Raw: out.String()}
	for _, line := range strings.Split(out.String(), "\n") {
		switch {
		case strings.HasPrefix(line, "VPRESULT outcome="):
			res.Outcome = strings.TrimPrefix(line, "VPRESULT outcome=")
		case strings.HasPrefix(line, "VPOBS "):
			res.Observed = append(res.Observed, strings.TrimPrefix(line, "VPOBS "))
		case strings.HasPrefix(line, "VPKNOWNFAIL "):
			res.KnownFails = append(res.KnownFails, strings.TrimPrefix(line, "VPKNOWNFAIL "))
		case strings.HasPrefix(line, "VPREACH "):
			res.Reached = append(res.Reached, strings.TrimPrefix(line, "VPREACH "))
		}
	}
	if res.Outcome == "" {
		res.Outcome = "crash"
	}
	return res, nil
}

// saveReplay writes a self-contained replay directory and returns its path.
func (r *replayer) saveReplay(root, prop, harness, assertID string, tape map[string]uint64, tier int, extra map[string]interface{}) (string, error) {
	dir := filepath.Join(root, prop, sanitize(harness+"-"+assertID))
	if err := os.MkdirAll(dir, 0o755); err != nil {
		return "", err
	}
	b, _ := json.MarshalIndent(tapeFile{Vals: tape, Tier: tier}, "", " ")
	if err := os.WriteFile(filepath.Join(dir, "tape.json"), b, 0o644); err != nil {
		return "", err
	}
	info := map[string]interface{}{"property": prop, "harness": harness, "assert": assertID,
		"replay_cmd": fmt.Sprintf("/verif/check %s --replay %s", prop, dir)}
	for k, v := range extra {
		info[k] = v
	}
	ib, _ := json.MarshalIndent(info, "", " ")
	os.WriteFile(filepath.Join(dir, "info.json"), ib, 0o644)
	return dir, nil
}

func sanitize(s string) string {
	var sb strings.Builder
	for _, c := range s {
		if (c >= 'a' && c <= 'z') || (c >= 'A' && c <= 'Z') || (c >= '0' && c <= '9') || c == '_' || c == '-' || c == '.' {
			sb.WriteRune(c)
		} else {
			sb.WriteByte('_')
		}
	}
	return sb.String()
}
