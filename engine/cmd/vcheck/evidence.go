package main

import (
	"encoding/json"
	"fmt"
	"os"
	"path/filepath"
	"sort"
	"strings"
	"time"

	"symgo/symgo"
)

type evidence struct {
	PropertyID  string                 `json:"property_id"`
	Tier        string                 `json:"tier"`
	Seed        int64                  `json:"seed"`
	Level       string                 `json:"level"`
	Coverage    map[string]interface{} `json:"coverage"`
	Assumptions []string               `json:"assumptions"`
	WallS       float64                `json:"wall_s"`
	Violations  int                    `json:"violations"`
}

func buildEvidence(prop, tier string, seed int64, outs []*harnessOutcome, reg *registry, hfiles []string, validated, mismatches, nviol int,
	knownLines, inconclusive []string, prog *symgo.Program, rp *replayer, wall time.Duration) *evidence {
	cov := map[string]interface{}{}
	states, transitions, obligations, discharged, queries := 0, 0, 0, 0, 0
	sat, unsat, unknown := 0, 0, 0
	var solverS float64
	var steps int64
	var samples []interface{}
	perHarness := map[string]interface{}{}
	funcsAll := map[string]int64{}
	var assumptions []string
	var outside []string
	var bounds []string
	ends := map[string]int{}
	for _, o := range outs {
		if o.rep == nil {
			continue
		}
		r := o.rep
		states += r.Paths
		transitions += r.Decisions
		obligations += r.Obligations
		discharged += r.Discharged
		queries += r.SolverQueries
		sat += r.SolverSat
		unsat += r.SolverUnsat
		unknown += r.SolverUnknown
		solverS += r.SolverTime.Seconds()
		steps += r.Steps
		for k, v := range r.Ends {
			ends[k] += v
		}
		for f, n := range r.Funcs {
			funcsAll[f] += n
		}
		hs := map[string]interface{}{
			"paths": r.Paths, "path_ends": r.Ends, "decisions": r.Decisions, "obligations": r.Obligations, "discharged": r.Discharged,
			"assertions_by_id": r.AssertsByID, "reach_labels": r.Reached, "solver_queries": r.SolverQueries, "solver_s": round3(r.SolverTime.Seconds()),
			"wall_s": round3(r.Wall.Seconds()), "instructions": r.Steps, "what": o.reg.What,
			"bounds": map[string]interface{}{"text": o.reg.Bounds[tier], "max_decisions_per_path": o.cfg.MaxDecisions, "max_instructions_per_path": o.cfg.MaxSteps,
				"concretize_k": o.cfg.ConcretizeK, "max_paths": o.cfg.MaxPaths, "solver_timeout_ms": o.cfg.SolverMs},
			"functions_encoded_declared": o.reg.Encodes,
			"functions_executed_top": r.TopFuncs(25, func(s string) bool {
				return strings.Contains(s, "absnfs") && !strings.Contains(s, ".vp") && !strings.Contains(s, ".VPH_")
			}),
			"cuts": r.BoundsNotes,
		}
		if o.alt != nil {
			hs["cross_solver_z3_5.1.0"] = map[string]interface{}{"paths": o.alt.Paths, "obligations": o.alt.Obligations, "discharged": o.alt.Discharged, "violations": len(o.alt.Violations), "solver_s": round3(o.alt.SolverTime.Seconds())}
		}
		perHarness[o.name] = hs
		for n, w := range r.Witnesses {
			if n >= 2 {
				break
			}
			samples = append(samples, map[string]interface{}{"harness": o.name, "kind": "feasible path witness (solver model)", "inputs": w.Tape, "observed": w.Observed, "reach": w.Reached})
		}
		for _, v := range r.Violations {
			samples = append(samples, map[string]interface{}{"harness": o.name, "kind": "counterexample", "assertion": v.AssertID, "inputs": v.Model, "observed": v.Observed})
		}
		for kid, v := range r.KnownHits {
			samples = append(samples, map[string]interface{}{"harness": o.name, "kind": "known finding " + kid, "assertion": v.AssertID, "inputs": v.Model, "observed": v.Observed})
		}
		assumptions = append(assumptions, o.reg.Assumptions...)
		outside = append(outside, o.reg.Outside...)
		if b := o.reg.Bounds[tier]; b != "" {
			bounds = append(bounds, o.name+": "+b)
		}
	}
	if len(samples) == 0 {
		samples = append(samples, map[string]interface{}{"note": "no path completed"})
	}
	if len(samples) > 12 {
		samples = samples[:12]
	}
	// functions actually executed from SSA (absnfs only), by instruction count
	type kv struct {
		k string
		v int64
	}
	var fl []kv
	for k, v := range funcsAll {
		if strings.Contains(k, "absnfs") && !strings.Contains(k, ".vp") && !strings.Contains(k, ".VPH_") && !strings.Contains(k, "$") {
			fl = append(fl, kv{k, v})
		}
	}
	sort.Slice(fl, func(a, b int) bool { return fl[a].v > fl[b].v || (fl[a].v == fl[b].v && fl[a].k < fl[b].k) })
	var fnames []string
	for k, e := range fl {
		if k >= 60 {
			break
		}
		fnames = append(fnames, fmt.Sprintf("%s (%d instr)", strings.TrimPrefix(e.k, "github.com/absfs/absnfs."), e.v))
	}
	cov["states"] = states
	cov["transitions"] = transitions
	cov["traces_validated_against_impl"] = validated
	cov["samples"] = samples
	cov["obligations"] = obligations
	cov["discharged"] = discharged
	cov["evaluations"] = states
	cov["distinct_nontrivial"] = ends["done"] + ends["violation"] + ends["known"]
	cov["rule"] = "one evaluation = one feasible control-flow path of the real SSA through the harness, decided by the solver; distinct by decision prefix; non-trivial = reaches the end of the harness or an assertion failure (paths cut by assumptions are not counted)"
	cov["exhaustive"] = len(inconclusive) == 0
	cov["explanation"] = "bounded symbolic model checking: every feasible path of the listed real functions within the stated bounds was enumerated by the engine; each assertion is an SMT query over all inputs of that path (unsat = holds)"
	cov["solver"] = map[string]interface{}{"queries": queries, "sat": sat, "unsat": unsat, "unknown": unknown, "time_s": round3(solverS), "primary": "z3 4.8.12 (-in, push/pop)", "cross_check": "z3 5.1.0 in the thorough tier"}
	cov["path_ends"] = ends
	cov["instructions_executed"] = steps
	cov["functions_encoded"] = fnames
	cov["harnesses"] = perHarness
	cov["bounds"] = bounds
	cov["outside_the_bound"] = uniq(outside)
	cov["stubs"] = reg.Stubs
	cov["harness_files"] = hfiles
	cov["encoding_regenerated_from"] = "go/packages + go/ssa (x/tools v0.29.0) over /repo's working tree with the harness overlay, on this run"
	cov["load_s"] = round3(prog.LoadDur.Seconds())
	cov["ssa_build_s"] = round3(prog.SSADur.Seconds())
	cov["replay_mismatches"] = mismatches
	if rp != nil {
		cov["native_replay_build_s"] = round3(rp.buildS)
	}
	cov["known_findings_reported"] = knownLines
	cov["inconclusive"] = uniq(inconclusive)
	cov["checker_cmd"] = fmt.Sprintf("/verif/check %s --tier %s", prop, tier)
	cov["trusted_base"] = []string{"symgo engine (fork of x/tools go/ssa/interp) and its native stubs", "z3 4.8.12", "go/ssa construction", "harness oracles in /verif/harness"}
	return &evidence{PropertyID: prop, Tier: tier, Seed: seed, Level: "model_checking", Coverage: cov, Assumptions: uniq(assumptions), WallS: round3(wall.Seconds()), Violations: nviol}
}

func round3(f float64) float64 { return float64(int64(f*1000+0.5)) / 1000 }

// outDir is where run-time output (evidence, replays) goes: /verif, unless
// VERIF_OUT names another directory (used when a check is pointed at a scratch
// copy of the repository for mutation runs, so the committed evidence of the
// real tree is not overwritten).
func outDir(vdir string) string {
	if d := os.Getenv("VERIF_OUT"); d != "" {
		return d
	}
	return vdir
}

func writeEvidence(vdir, prop string, ev *evidence) error {
	dir := filepath.Join(outDir(vdir), "evidence")
	if err := os.MkdirAll(dir, 0o755); err != nil {
		return err
	}
	b, err := json.MarshalIndent(ev, "", " ")
	if err != nil {
		return err
	}
	return os.WriteFile(filepath.Join(dir, prop+".json"), append(b, '\n'), 0o644)
}

func writeEvidenceFailure(vdir, prop, tier string, seed int64, why string, wall time.Duration) {
	ev := &evidence{PropertyID: prop, Tier: tier, Seed: seed, Level: "other",
		Coverage:    map[string]interface{}{"explanation": "check did not run: " + why, "evaluations": 0, "distinct_nontrivial": 0},
		Assumptions: nil, WallS: round3(wall.Seconds())}
	writeEvidence(vdir, prop, ev)
}
