package main

// vcheck: decides the properties of /verif/properties.jsonl by bounded symbolic
// execution of /repo's current working tree.
//
//	vcheck check -prop C12 -tier quick
//	vcheck run -harness VPH_x [-v]          (development)
//	vcheck replay -prop C12 -dir <replay dir>

import (
	"encoding/json"
	"flag"
	"fmt"
	"os"
	"path/filepath"
	"runtime/pprof"
	"sort"
	"strconv"
	"strings"
	"sync"
	"time"

	"symgo/symgo"
)

type tierCfg struct {
	MaxDecisions int   `json:"max_decisions"`
	MaxSteps     int64 `json:"max_steps"`
	MaxPaths     int   `json:"max_paths"`
	ConcretizeK  int   `json:"concretize_k"`
	SolverMs     int   `json:"solver_ms"`
	Workers      int   `json:"workers"`
	Samples      int   `json:"samples"`
	Skip         bool  `json:"skip"`
}

type harnessReg struct {
	Property    string              `json:"property"`
	Reach       []string            `json:"reach"`
	ReachTier   map[string][]string `json:"reach_tier"`
	Float       string              `json:"float"`
	MaxAlloc    int64               `json:"max_alloc"`
	AllocCut    bool                `json:"alloc_cut"`
	NoWitness   bool                `json:"no_witness_replay"`
	Quick       tierCfg             `json:"quick"`
	Thorough    tierCfg             `json:"thorough"`
	Bounds      map[string]string   `json:"bounds"` // tier -> text
	Encodes     []string            `json:"encodes"`
	Outside     []string            `json:"outside"`
	Assumptions []string            `json:"assumptions"`
	What        string              `json:"what"`
}

type registry struct {
	Harnesses map[string]*harnessReg `json:"harnesses"`
	Stubs     []string               `json:"stubs"`
}

type knownFinding struct {
	ID       string `json:"id"`
	Property string `json:"property"`
	What     string `json:"what"`
	Status   string `json:"status"`
}

type knownFile struct {
	Findings []knownFinding `json:"findings"`
	Fixed    []string       `json:"fixed"`
}

func loadOverlay(repo, hdir string) (map[string][]byte, []string, error) {
	overlay := map[string][]byte{}
	files, _ := filepath.Glob(filepath.Join(hdir, "zz_vp_*.go"))
	var names []string
	for _, f := range files {
		if strings.HasSuffix(f, "_test.go") {
			continue
		}
		b, err := os.ReadFile(f)
		if err != nil {
			return nil, nil, err
		}
		overlay[filepath.Join(repo, filepath.Base(f))] = b
		names = append(names, filepath.Base(f))
	}
	return overlay, names, nil
}

func main() {
	if len(os.Args) < 2 {
		fmt.Fprintln(os.Stderr, "usage: vcheck check|run|replay ...")
		os.Exit(2)
	}
	switch os.Args[1] {
	case "check":
		os.Exit(cmdCheck(os.Args[2:]))
	case "run":
		os.Exit(cmdRun(os.Args[2:]))
	case "replay":
		os.Exit(cmdReplay(os.Args[2:]))
	}
	fmt.Fprintln(os.Stderr, "unknown command")
	os.Exit(2)
}

func defaults(t tierCfg, thorough bool) tierCfg {
	if t.MaxDecisions == 0 {
		t.MaxDecisions = 600
	}
	if t.MaxSteps == 0 {
		t.MaxSteps = 20_000_000
	}
	if t.MaxPaths == 0 {
		t.MaxPaths = 200000
	}
	if t.ConcretizeK == 0 {
		t.ConcretizeK = 64
	}
	if t.SolverMs == 0 {
		t.SolverMs = 60000
	}
	if t.Workers == 0 {
		t.Workers = 4
	}
	if t.Samples == 0 {
		t.Samples = 6
	}
	return t
}

func cmdRun(args []string) int {
	fs := flag.NewFlagSet("run", flag.ExitOnError)
	repo := fs.String("repo", "/repo", "repository under test")
	hdir := fs.String("hdir", "/verif/harness", "harness directory")
	name := fs.String("harness", "", "harness function")
	workers := fs.Int("workers", 4, "workers")
	verbose := fs.Bool("v", false, "verbose")
	tier := fs.Int("tier", 0, "0 quick, 1 thorough")
	solver := fs.String("solver", "z3", "z3|z3-new|cvc5")
	float := fs.String("float", "fp", "fp|real")
	maxPaths := fs.Int("maxpaths", 200000, "path budget")
	prof := fs.String("cpuprofile", "", "write cpu profile")
	kconc := fs.Int("k", 64, "concretize bound")
	maxDec := fs.Int("maxdec", 600, "max decisions")
	allocCut := fs.Bool("alloccut", false, "representative allocation sizes")
	fs.Parse(args)
	if *prof != "" {
		f, _ := os.Create(*prof)
		pprof.StartCPUProfile(f)
		defer pprof.StopCPUProfile()
	}
	overlay, _, err := loadOverlay(*repo, *hdir)
	if err != nil {
		fmt.Fprintln(os.Stderr, err)
		return 3
	}
	prog, err := symgo.Load(*repo, overlay, "")
	if err != nil {
		fmt.Fprintln(os.Stderr, err)
		return 3
	}
	fmt.Printf("loaded %d packages in %v, ssa %v\n", prog.NPkgs, prog.LoadDur, prog.SSADur)
	known := loadKnown("/verif/known_findings.json")
	cfg := symgo.HarnessConfig{MaxDecisions: *maxDec, MaxSteps: 20_000_000, MaxPaths: *maxPaths, ConcretizeK: *kconc, SolverMs: 60000,
		Workers: *workers, SampleEvery: 1, FloatMode: *float, Known: known, Tier: *tier, AllocCut: *allocCut}
	rep, err := prog.RunHarness(*name, cfg, solverKind(*solver), *verbose)
	if err != nil {
		fmt.Fprintln(os.Stderr, err)
		return 3
	}
	fmt.Printf("paths=%d ends=%v obligations=%d discharged=%d queries=%d solver=%v wall=%v steps=%d\n", rep.Paths, rep.Ends, rep.Obligations, rep.Discharged, rep.SolverQueries, rep.SolverTime, rep.Wall, rep.Steps)
	fmt.Printf("reached=%v\nasserts=%v\nmodeltime=%v\n", rep.Reached, rep.AssertsByID, rep.ModelTime)
	for _, v := range rep.Violations {
		fmt.Printf("VIOLATION %s %s\n  model=%v\n  obs=%v\n  trace=%v\n", v.AssertID, v.Msg, v.Model, v.Observed, v.Trace)
	}
	for k, v := range rep.KnownHits {
		fmt.Printf("KNOWN %s assert=%s model=%v obs=%v\n", k, v.AssertID, v.Model, v.Observed)
	}
	for _, m := range rep.Inconclusive {
		fmt.Printf("INCONCLUSIVE %s\n", m)
	}
	for _, m := range rep.BoundsNotes {
		fmt.Printf("NOTE %s\n", m)
	}
	for k, w := range rep.Witnesses {
		if k < 4 {
			fmt.Printf("witness tape=%v obs=%v\n", w.Tape, w.Observed)
		}
	}
	fmt.Println(rep.TopFuncs(15, nil))
	return 0
}

func solverKind(s string) symgo.SolverKind {
	switch s {
	case "z3-new":
		return symgo.SolverZ3New
	case "cvc5":
		return symgo.SolverCVC5
	}
	return symgo.SolverZ3
}

func loadKnown(path string) map[string]bool {
	out := map[string]bool{}
	b, err := os.ReadFile(path)
	if err != nil {
		return out
	}
	var kf knownFile
	if json.Unmarshal(b, &kf) != nil {
		return out
	}
	for _, f := range kf.Findings {
		if f.Status == "" || f.Status == "open" {
			out[f.ID] = true
		}
	}
	return out
}

func loadKnownFile(path string) knownFile {
	var kf knownFile
	if b, err := os.ReadFile(path); err == nil {
		json.Unmarshal(b, &kf)
	}
	return kf
}

// ---- check

type harnessOutcome struct {
	name   string
	reg    *harnessReg
	rep    *symgo.HarnessReport
	cfg    tierCfg
	err    error
	alt    *symgo.HarnessReport // cross-solver run (thorough)
	altErr error
}

func cmdCheck(args []string) int {
	fs := flag.NewFlagSet("check", flag.ExitOnError)
	repo := fs.String("repo", "/repo", "repository under test")
	vdir := fs.String("verif", "/verif", "verification directory")
	prop := fs.String("prop", "", "property id")
	tierS := fs.String("tier", "quick", "quick|thorough")
	only := fs.String("only", "", "run only this harness")
	verbose := fs.Bool("v", false, "verbose")
	noReplay := fs.Bool("noreplay", false, "skip native replay (development only; exit 3)")
	fs.Parse(args)
	if r := os.Getenv("VERIF_REPO"); r != "" {
		*repo = r
	}
	if *prop == "" {
		fmt.Fprintln(os.Stderr, "need -prop")
		return 2
	}
	if t := os.Getenv("VERIF_TIER"); t == "quick" || t == "thorough" {
		// the flag wins when given explicitly; the env var only fills the default
		explicit := false
		fs.Visit(func(f *flag.Flag) {
			if f.Name == "tier" {
				explicit = true
			}
		})
		if !explicit {
			*tierS = t
		}
	}
	seed := int64(1)
	if s := os.Getenv("VERIF_SEED"); s != "" {
		if v, err := strconv.ParseInt(s, 10, 64); err == nil {
			seed = v
		}
	}
	thorough := *tierS == "thorough"
	start := time.Now()
	hdir := filepath.Join(*vdir, "harness")
	var reg registry
	rb, err := os.ReadFile(filepath.Join(hdir, "registry.json"))
	if err != nil {
		fmt.Fprintln(os.Stderr, "cannot read registry:", err)
		return 3
	}
	if err := json.Unmarshal(rb, &reg); err != nil {
		fmt.Fprintln(os.Stderr, "bad registry:", err)
		return 3
	}
	kf := loadKnownFile(filepath.Join(*vdir, "known_findings.json"))
	known := map[string]bool{}
	knownWhat := map[string]string{}
	for _, f := range kf.Findings {
		if f.Status == "" || f.Status == "open" {
			known[f.ID] = true
			knownWhat[f.ID] = f.What
		}
	}
	var names []string
	for n, h := range reg.Harnesses {
		if h.Property == *prop && (*only == "" || *only == n) {
			tc := h.Quick
			if thorough {
				tc = h.Thorough
			}
			if tc.Skip {
				continue
			}
			names = append(names, n)
		}
	}
	sort.Strings(names)
	if len(names) == 0 {
		fmt.Fprintf(os.Stderr, "no harness registered for %s\n", *prop)
		return 3
	}
	overlay, hfiles, err := loadOverlay(*repo, hdir)
	if err != nil {
		fmt.Fprintln(os.Stderr, err)
		return 3
	}
	prog, err := symgo.Load(*repo, overlay, "")
	if err != nil {
		// the harness no longer type-checks against the tree: inconclusive, never an alarm
		fmt.Fprintln(os.Stderr, "INCONCLUSIVE: cannot load /repo with harness overlay:", err)
		writeEvidenceFailure(*vdir, *prop, *tierS, seed, "load failed: "+firstLine(err.Error()), time.Since(start))
		return 3
	}
	fmt.Printf("[%s %s] loaded %d packages (load %.1fs, ssa %.1fs); harnesses: %s\n", *prop, *tierS, prog.NPkgs, prog.LoadDur.Seconds(), prog.SSADur.Seconds(), strings.Join(names, " "))

	outs := make([]*harnessOutcome, len(names))
	var wg sync.WaitGroup
	sem := make(chan struct{}, 4) // harnesses in parallel; each has its own workers
	for k, n := range names {
		h := reg.Harnesses[n]
		tc := h.Quick
		if thorough {
			tc = h.Thorough
		}
		tc = defaults(tc, thorough)
		o := &harnessOutcome{name: n, reg: h, cfg: tc}
		outs[k] = o
		wg.Add(1)
		go func() {
			defer wg.Done()
			sem <- struct{}{}
			defer func() { <-sem }()
			fm := h.Float
			if fm == "" {
				fm = "fp"
			}
			tier := 0
			if thorough {
				tier = 1
			}
			cfg := symgo.HarnessConfig{MaxDecisions: tc.MaxDecisions, MaxSteps: tc.MaxSteps, MaxPaths: tc.MaxPaths, ConcretizeK: tc.ConcretizeK,
				SolverMs: tc.SolverMs, Workers: tc.Workers, SampleEvery: 1, FloatMode: fm, Known: known, Tier: tier, Seed: seed, MaxAlloc: h.MaxAlloc, AllocCut: h.AllocCut, StopAfterViolations: 4}
			o.rep, o.err = prog.RunHarness(n, cfg, symgo.SolverZ3, *verbose)
			if o.err == nil {
				fmt.Printf("[%s] %s: paths=%d ends=%v obligations=%d/%d queries=%d solver=%.1fs wall=%.1fs\n", *prop, n, o.rep.Paths, o.rep.Ends, o.rep.Discharged, o.rep.Obligations, o.rep.SolverQueries, o.rep.SolverTime.Seconds(), o.rep.Wall.Seconds())
			}
			if thorough && o.err == nil && len(o.rep.Violations) == 0 {
				// cross-solver diff: the same exploration decided by z3 5.1.0
				o.alt, o.altErr = prog.RunHarness(n, cfg, symgo.SolverZ3New, false)
			}
		}()
	}
	wg.Wait()

	// ---- judge
	var inconclusive []string
	type confirmed struct {
		v    *symgo.Violation
		dir  string
		h    string
		real bool
	}
	var violations []confirmed
	var knownLines []string
	knownSeen := map[string]bool{}
	validated := 0
	replayMismatch := 0
	var rp *replayer
	if !*noReplay {
		rp, err = newReplayer(*repo, hdir)
		if err != nil {
			fmt.Fprintln(os.Stderr, err)
			return 3
		}
		defer rp.cleanup()
		var ids []string
		for id := range known {
			ids = append(ids, id)
		}
		sort.Strings(ids)
		rp.known = strings.Join(ids, ",")
	}
	tierN := 0
	if thorough {
		tierN = 1
	}
	for _, o := range outs {
		if o.err != nil {
			inconclusive = append(inconclusive, fmt.Sprintf("%s: %v", o.name, o.err))
			continue
		}
		r := o.rep
		for _, m := range r.Inconclusive {
			inconclusive = append(inconclusive, o.name+": "+m)
		}
		if r.Ends["done"] == 0 && len(r.Violations) == 0 && len(r.KnownHits) == 0 {
			inconclusive = append(inconclusive, o.name+": vacuous harness: no path reaches its end")
		}
		if len(r.Violations) == 0 {
			reach := append([]string(nil), o.reg.Reach...)
			reach = append(reach, o.reg.ReachTier[*tierS]...)
			for _, l := range reach {
				if r.Reached[l] == 0 {
					inconclusive = append(inconclusive, fmt.Sprintf("%s: vacuity: reach label %q not reached by any feasible path", o.name, l))
				}
			}
		}
		if o.alt != nil {
			if o.alt.Paths != r.Paths || len(o.alt.Violations) != len(r.Violations) || o.alt.Obligations != r.Obligations || o.alt.Discharged != r.Discharged {
				inconclusive = append(inconclusive, fmt.Sprintf("%s: cross-solver disagreement: z3 4.8.12 paths=%d oblig=%d/%d viol=%d vs z3 5.1.0 paths=%d oblig=%d/%d viol=%d",
					o.name, r.Paths, r.Discharged, r.Obligations, len(r.Violations), o.alt.Paths, o.alt.Discharged, o.alt.Obligations, len(o.alt.Violations)))
			}
		} else if o.altErr != nil {
			inconclusive = append(inconclusive, o.name+": cross-solver run failed: "+o.altErr.Error())
		}
		if rp == nil {
			continue
		}
		// replay: violations
		seen := map[string]bool{}
		for _, v := range r.Violations {
			if seen[v.AssertID] {
				continue
			}
			seen[v.AssertID] = true
			res, err := rp.run(o.name, v.Tape, tierN)
			if err != nil {
				inconclusive = append(inconclusive, o.name+": "+err.Error())
				continue
			}
			if outcomeMatches(res.Outcome, v) {
				dir, _ := rp.saveReplay(filepath.Join(outDir(*vdir), "replays"), *prop, o.name, v.AssertID, v.Tape, tierN, map[string]interface{}{
					"model": v.Model, "observed_engine": v.Observed, "observed_native": res.Observed, "native_outcome": res.Outcome, "msg": v.Msg, "trace": v.Trace})
				violations = append(violations, confirmed{v: v, dir: dir, h: o.name, real: true})
			} else {
				replayMismatch++
				inconclusive = append(inconclusive, fmt.Sprintf("%s: counterexample for %s did not reproduce natively (native outcome %q, engine obs %v, native obs %v, engine message %q): engine or stub mismatch",
					o.name, v.AssertID, res.Outcome, v.Observed, res.Observed, v.Msg))
				if *verbose {
					fmt.Fprintln(os.Stderr, tail(res.Raw, 3000))
				}
			}
		}
		// replay: known findings
		var kids []string
		for kid := range r.KnownHits {
			kids = append(kids, kid)
		}
		sort.Strings(kids)
		for _, kid := range kids {
			v := r.KnownHits[kid]
			res, err := rp.run(o.name, v.Tape, tierN)
			if err != nil {
				inconclusive = append(inconclusive, o.name+": "+err.Error())
				continue
			}
			if outcomeMatches(res.Outcome, v) || containsStr(res.KnownFails, v.AssertID) {
				for _, one := range strings.Split(kid, ",") {
					if knownSeen[one] {
						continue
					}
					knownSeen[one] = true
					knownLines = append(knownLines, fmt.Sprintf("KNOWN-FINDING: property=%s %s: %s (harness %s, assertion %s, witness %s)", *prop, one, knownWhat[one], o.name, v.AssertID, compactModel(v.Model)))
				}
				validated++
			} else {
				inconclusive = append(inconclusive, fmt.Sprintf("%s: known finding %s did not reproduce natively (native outcome %q): engine or stub mismatch", o.name, kid, res.Outcome))
			}
		}
		// replay: sampled witnesses (translation validation of the engine)
		ns := 0
		for _, w := range r.Witnesses {
			if o.reg.NoWitness {
				break
			}
			if ns >= o.cfg.Samples {
				break
			}
			ns++
			res, err := rp.run(o.name, w.Tape, tierN)
			if err != nil {
				inconclusive = append(inconclusive, o.name+": "+err.Error())
				break
			}
			if res.Outcome == "done" && len(res.KnownFails) == 0 && equalStrings(res.Observed, w.Observed) {
				validated++
			} else {
				replayMismatch++
				inconclusive = append(inconclusive, fmt.Sprintf("%s: witness replay mismatch: native outcome %q obs %v, engine obs %v, tape %v", o.name, res.Outcome, res.Observed, w.Observed, w.Tape))
				if *verbose {
					fmt.Fprintln(os.Stderr, tail(res.Raw, 3000))
				}
			}
		}
	}
	if rp == nil {
		inconclusive = append(inconclusive, "native replay skipped (-noreplay)")
	}

	// ---- evidence
	ev := buildEvidence(*prop, *tierS, seed, outs, &reg, hfiles, validated, replayMismatch, len(violations), knownLines, inconclusive, prog, rp, time.Since(start))
	if err := writeEvidence(*vdir, *prop, ev); err != nil {
		fmt.Fprintln(os.Stderr, "cannot write evidence:", err)
		return 3
	}

	sort.Strings(knownLines)
	knownLines = uniq(knownLines)
	for _, l := range knownLines {
		fmt.Println(l)
	}
	for _, f := range kf.Findings {
		if f.Property == *prop && (f.Status == "" || f.Status == "open") {
			hit := false
			for _, l := range knownLines {
				if strings.Contains(l, " "+f.ID+":") {
					hit = true
				}
			}
			if !hit && *only == "" && len(inconclusive) == 0 {
				fmt.Printf("note: listed finding %s was not observed on this tree at tier %s (stale entry or outside this tier's bounds)\n", f.ID, *tierS)
			}
		}
	}
	if len(violations) > 0 {
		for _, c := range violations {
			fmt.Printf("VIOLATION property=%s replay=%s\n", *prop, c.dir)
			fmt.Printf("  harness=%s assertion=%s %s\n  inputs=%s\n  observed=%v\n", c.h, c.v.AssertID, c.v.Msg, compactModel(c.v.Model), c.v.Observed)
		}
		return 1
	}
	if len(inconclusive) > 0 {
		for _, m := range uniq(inconclusive) {
			fmt.Printf("INCONCLUSIVE: %s\n", m)
		}
		return 3
	}
	fmt.Printf("OK property=%s tier=%s harnesses=%d wall=%.1fs\n", *prop, *tierS, len(outs), time.Since(start).Seconds())
	return 0
}

func outcomeMatches(outcome string, v *symgo.Violation) bool {
	if v.Panic {
		// a panic in a goroutine of the code under test takes the whole replay process down
		return strings.HasPrefix(outcome, "panic:") || outcome == "crash"
	}
	return outcome == "assert:"+v.AssertID
}

func containsStr(xs []string, s string) bool {
	for _, x := range xs {
		if x == s {
			return true
		}
	}
	return false
}

func equalStrings(a, b []string) bool {
	if len(a) != len(b) {
		return false
	}
	for k := range a {
		if a[k] != b[k] {
			return false
		}
	}
	return true
}

func uniq(xs []string) []string {
	seen := map[string]bool{}
	out := []string{}
	for _, x := range xs {
		if !seen[x] {
			seen[x] = true
			out = append(out, x)
		}
	}
	return out
}

func compactModel(m map[string]string) string {
	ks := make([]string, 0, len(m))
	for k := range m {
		ks = append(ks, k)
	}
	sort.Strings(ks)
	var sb strings.Builder
	for n, k := range ks {
		if n > 0 {
			sb.WriteByte(' ')
		}
		if n >= 24 {
			fmt.Fprintf(&sb, "...(+%d)", len(ks)-n)
			break
		}
		sb.WriteString(k + "=" + m[k])
	}
	return sb.String()
}

func firstLine(s string) string {
	if k := strings.IndexByte(s, '\n'); k >= 0 {
		return s[:k]
	}
	return s
}

// ---- replay command

func cmdReplay(args []string) int {
	fs := flag.NewFlagSet("replay", flag.ExitOnError)
	repo := fs.String("repo", "/repo", "repository under test")
	vdir := fs.String("verif", "/verif", "verification directory")
	dir := fs.String("dir", "", "replay directory")
	fs.Parse(args)
	b, err := os.ReadFile(filepath.Join(*dir, "info.json"))
	if err != nil {
		fmt.Fprintln(os.Stderr, err)
		return 2
	}
	var info struct {
		Property string `json:"property"`
		Harness  string `json:"harness"`
		Assert   string `json:"assert"`
	}
	json.Unmarshal(b, &info)
	tb, err := os.ReadFile(filepath.Join(*dir, "tape.json"))
	if err != nil {
		fmt.Fprintln(os.Stderr, err)
		return 2
	}
	var tf tapeFile
	json.Unmarshal(tb, &tf)
	rp, err := newReplayer(*repo, filepath.Join(*vdir, "harness"))
	if err != nil {
		fmt.Fprintln(os.Stderr, err)
		return 2
	}
	defer rp.cleanup()
	res, err := rp.run(info.Harness, tf.Vals, tf.Tier)
	if err != nil {
		fmt.Fprintln(os.Stderr, err)
		return 2
	}
	fmt.Printf("harness=%s expected=assert:%s native outcome=%s\n", info.Harness, info.Assert, res.Outcome)
	for _, o := range res.Observed {
		fmt.Println("  obs", o)
	}
	if res.Outcome == "assert:"+info.Assert || strings.HasPrefix(res.Outcome, "panic:") {
		fmt.Printf("VIOLATION property=%s replay=%s\n", info.Property, *dir)
		return 1
	}
	return 0
}
