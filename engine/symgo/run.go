package symgo

// Loading /repo (with harness overlay), building SSA, and running harnesses.

import (
	"fmt"
	"go/token"
	"go/types"
	"os"
	"runtime"
	"sort"
	"strings"
	"sync"
	"time"

	"golang.org/x/tools/go/packages"
	"golang.org/x/tools/go/ssa"
	"golang.org/x/tools/go/ssa/ssautil"
)

type Program struct {
	Prog    *ssa.Program
	Main    *ssa.Package
	Fset    *token.FileSet
	LoadDur time.Duration
	SSADur  time.Duration
	NPkgs   int
}

// Load type-checks dir (with overlay files) and builds whole-program SSA.
func Load(dir string, overlay map[string][]byte, tags string) (*Program, error) {
	t0 := time.Now()
	cfg := &packages.Config{
		Mode:    packages.LoadAllSyntax,
		Dir:     dir,
		Overlay: overlay,
		Env:     append(os.Environ(), "GOFLAGS=-mod=mod", "GOPROXY=off", "GOSUMDB=off", "GOTOOLCHAIN=local", "CGO_ENABLED=0"),
	}
	if tags != "" {
		cfg.BuildFlags = []string{"-tags=" + tags}
	}
	pkgs, err := packages.Load(cfg, ".")
	if err != nil {
		return nil, err
	}
	var errs []string
	packages.Visit(pkgs, nil, func(p *packages.Package) {
		for _, e := range p.Errors {
			errs = append(errs, e.Error())
		}
	})
	if len(errs) > 0 {
		return nil, fmt.Errorf("type errors:\n%s", strings.Join(errs, "\n"))
	}
	t1 := time.Now()
	prog, spkgs := ssautil.AllPackages(pkgs, ssa.InstantiateGenerics|ssa.SanityCheckFunctions*0)
	prog.Build()
	if len(spkgs) != 1 || spkgs[0] == nil {
		return nil, fmt.Errorf("expected one root package")
	}
	HarnessPkgPath = spkgs[0].Pkg.Path()
	return &Program{Prog: prog, Main: spkgs[0], Fset: prog.Fset, LoadDur: t1.Sub(t0), SSADur: time.Since(t1), NPkgs: len(prog.AllPackages())}, nil
}

// ---- selective package initialisation

var noInitPkgs = map[string]bool{
	"runtime": true, "os": true, "syscall": true, "reflect": true, "internal/reflectlite": true,
	"internal/poll": true, "internal/cpu": true, "internal/abi": true, "internal/godebug": true, "internal/bytealg": true,
	"sync": true, "sync/atomic": true, "internal/race": true, "unsafe": true, "log": true, "log/slog": true,
	"net": true, "crypto/tls": true, "crypto/x509": true, "context": true, "fmt": true, "os/signal": true,
	"errors": true, "time": true, "unicode": true, "strconv": true, "bufio": true, "sort": true,
	"encoding/json": true, "encoding/base64": true, "encoding/hex": true, "encoding/pem": true, "encoding/asn1": true,
	"math/rand": true, "math/big": true, "hash/crc32": true, "mime": true, "html": true, "text/template": true,
	"testing": true, "flag": true, "regexp": true, "regexp/syntax": true, "io/ioutil": true, "embed": true,
	"path/filepath": false,
}

func shouldInit(p *ssa.Package) bool {
	path := p.Pkg.Path()
	if v, ok := noInitPkgs[path]; ok {
		return !v
	}
	for _, pre := range []string{"runtime/", "crypto/", "internal/", "vendor/", "net/", "log/", "os/", "math/rand", "compress/", "golang.org/x/", "database/", "text/", "html/", "go/", "debug/", "testing/", "unique", "iter", "weak", "hash/maphash"} {
		if strings.HasPrefix(path, pre) {
			switch path {
			case "internal/oserror", "internal/itoa", "internal/stringslite", "internal/byteorder", "internal/filepathlite", "net/netip":
				// net/netip: its init only makes the three address-family handles (unique.Make, native)
				return true
			}
			return false
		}
	}
	return true
}

func (i *interpreter) zeroGlobals(pkg *ssa.Package) {
	for _, m := range pkg.Members {
		if g, ok := m.(*ssa.Global); ok {
			cell := zero(mustDeref(g.Type()))
			if p, ok := i.globals[g]; ok {
				*p = cell
			} else {
				i.globals[g] = &cell
			}
		}
	}
}

// runInit runs pkg's initializer, or for skipped packages only those of its imports.
func (i *interpreter) runInit(pkg *ssa.Package, seen map[*ssa.Package]bool) {
	if seen[pkg] {
		return
	}
	seen[pkg] = true
	for _, imp := range pkg.Pkg.Imports() {
		if ip := i.prog.Package(imp); ip != nil {
			i.runInit(ip, seen)
		}
	}
	guard, _ := pkg.Members["init$guard"].(*ssa.Global)
	if !shouldInit(pkg) {
		if guard != nil {
			*i.globals[guard] = true
		}
		i.patchGlobals(pkg)
		return
	}
	// dependencies are done (or deliberately skipped): mark their guards so init() does not re-enter
	if fn := pkg.Func("init"); fn != nil {
		func() {
			defer func() {
				if r := recover(); r != nil {
					msg := fmt.Sprint(r)
					if ea, ok := r.(*engineAbort); ok {
						msg = ea.Error()
					} else if tp, ok := r.(targetPanic); ok {
						msg = toString(tp.v)
					}
					if i.verbose {
						fmt.Fprintf(os.Stderr, "symgo: init of %s aborted: %.300s\n", pkg.Pkg.Path(), msg)
					}
					if pkg == i.mainPkg {
						panic(&engineAbort{kind: "engine", msg: "init of harness package failed: " + msg})
					}
				}
			}()
			call(i, nil, token.NoPos, fn, nil)
		}()
	}
	i.patchGlobals(pkg)
}

// patchGlobals fills in the few package-level variables of un-initialised
// packages that target code reads.
func (i *interpreter) patchGlobals(pkg *ssa.Package) {
	set := func(name string, v value) {
		if g, ok := pkg.Members[name].(*ssa.Global); ok {
			*i.globals[g] = v
		}
	}
	get := func(p, name string) value {
		if pp := i.prog.ImportedPackage(p); pp != nil {
			if g, ok := pp.Members[name].(*ssa.Global); ok {
				return *i.globals[g]
			}
		}
		return nil
	}
	switch pkg.Pkg.Path() {
	case "os":
		for _, n := range []string{"ErrInvalid", "ErrPermission", "ErrExist", "ErrNotExist", "ErrClosed"} {
			if v := get("io/fs", n); v != nil {
				set(n, v)
			}
		}
		set("ErrNoDeadline", i.newError("file type does not support deadline"))
		set("ErrDeadlineExceeded", i.newError("i/o timeout"))
		set("ErrProcessDone", i.newError("os: process already finished"))
	case "syscall":
		// errors returned by Errno.Error etc. are not needed
	case "context":
		set("Canceled", i.newError("context canceled"))
		set("DeadlineExceeded", i.newError("context deadline exceeded"))
	case "time":
		set("startNano", int64(0))
	case "net":
		set("ErrClosed", i.newError("use of closed network connection"))
		set("IPv6loopback", []value{byte(0), byte(0), byte(0), byte(0), byte(0), byte(0), byte(0), byte(0), byte(0), byte(0), byte(0), byte(0), byte(0), byte(0), byte(0), byte(1)})
		set("v4InV6Prefix", []value{byte(0), byte(0), byte(0), byte(0), byte(0), byte(0), byte(0), byte(0), byte(0), byte(0), byte(0xff), byte(0xff)})
	}
}

func (p *Program) newInterp(cfg *HarnessConfig, ex *explorer, kind SolverKind, verbose bool) (*interpreter, error) {
	i := &interpreter{
		prog:      p.Prog,
		globals:   make(map[*ssa.Global]*value),
		sizes:     types.SizesFor("gc", "amd64"),
		ts:        NewTermStore(),
		cfg:       cfg,
		ex:        ex,
		rep:       &reportAcc{assertIDs: map[string]int{}},
		funcSteps: map[*ssa.Function]int64{},
		mainPkg:   p.Main,
		extCache:  map[*ssa.Function]externalFn{},
		cutNotes:  map[string]bool{},
		verbose:   verbose,
		tracing:   os.Getenv("SYMGO_TRACE") != "",
	}
	rt := p.Prog.ImportedPackage("runtime")
	if rt == nil {
		return nil, fmt.Errorf("program lacks runtime package")
	}
	i.runtimeErrorString = rt.Type("errorString").Object().Type()
	s, err := NewSolver(kind, i.ts, cfg.SolverMs)
	if err != nil {
		return nil, err
	}
	i.solver = s
	for _, pkg := range p.Prog.AllPackages() {
		i.zeroGlobals(pkg)
	}
	// initialise dependencies once per worker
	i.inInit = true
	seen := map[*ssa.Package]bool{p.Main: true}
	for _, imp := range p.Main.Pkg.Imports() {
		if ip := p.Prog.Package(imp); ip != nil {
			i.runInit(ip, seen)
		}
	}
	i.inInit = false
	i.totalSteps = 0
	i.funcSteps = map[*ssa.Function]int64{}
	return i, nil
}

// initMain re-initialises the harness package's globals (fresh per path).
func (i *interpreter) initMain() {
	i.zeroGlobals(i.mainPkg)
	// imported packages are initialised: run init with dependency calls returning at their guards
	i.inInit = true
	defer func() { i.inInit = false }()
	if fn := i.mainPkg.Func("init"); fn != nil {
		call(i, nil, token.NoPos, fn, nil)
	}
}

// runPath executes one path of the harness.
func (i *interpreter) runPath(fn *ssa.Function, prefix []decision) (res *PathResult) {
	i.newPath(prefix)
	res = &PathResult{}
	defer func() {
		p := i.path
		if r := recover(); r != nil {
			switch r := r.(type) {
			case *engineAbort:
				res.End, res.Msg = r.kind, r.msg
				if r.kind == "goroutine-panic" {
					func() {
						defer func() {
							if r2 := recover(); r2 != nil {
								if ea, ok := r2.(*engineAbort); ok {
									res.End, res.Msg = ea.kind, ea.msg+" ("+r.msg+")"
									return
								}
								panic(r2)
							}
						}()
						i.flushAsserts()
						i.doAssert(false, "no-panic", true, r.msg)
						res.End = "panic-known"
					}()
				}
			case targetPanic:
				// unrecovered panic of the code under test
				msg := "unrecovered panic: " + toString(r.v)
				func() {
					defer func() {
						if r2 := recover(); r2 != nil {
							if ea, ok := r2.(*engineAbort); ok {
								res.End, res.Msg = ea.kind, ea.msg+" ("+msg+")"
								return
							}
							panic(r2)
						}
					}()
					i.flushAsserts()
					i.doAssert(false, "no-panic", true, msg)
					res.End, res.Msg = "panic-known", msg
				}()
			default:
				buf := make([]byte, 1<<14)
				n := runtime.Stack(buf, false)
				res.End, res.Msg = "engine", fmt.Sprintf("engine panic: %v\n%s", r, buf[:n])
			}
		} else {
			res.End = "done"
			if p.knownHit {
				res.End = "known"
			}
		}
		res.Decisions = len(p.decs)
		res.Steps = p.steps
		res.Reached = p.reachOrd
		res.Asserts = p.asserts
		if res.End == "done" && i.cfg.SampleEvery > 0 && i.sampleNow() {
			func() {
				defer func() { recover() }()
				res.Tape, res.Observed = i.witness()
			}()
		}
		if i.path.asserted == 0 && len(i.path.pc) > 0 {
			// the solver was never consulted on this path; its stack still belongs to an earlier path
		}
	}()
	i.initMain()
	call(i, nil, token.NoPos, fn, nil)
	i.flushAsserts()
	return
}

// sampleNow: the first few completed paths of each worker, then every 64th.
func (i *interpreter) sampleNow() bool {
	i.sampleCtr++
	return i.sampleCtr <= 4 || i.sampleCtr%64 == 0
}

// RunHarness explores all paths of the named harness function.
func (p *Program) RunHarness(name string, cfg HarnessConfig, kind SolverKind, verbose bool) (*HarnessReport, error) {
	fn := p.Main.Func(name)
	if fn == nil {
		return nil, fmt.Errorf("harness function %s not found", name)
	}
	if cfg.Workers <= 0 {
		cfg.Workers = 1
	}
	start := time.Now()
	ex := &explorer{}
	ex.cond = sync.NewCond(&ex.mu)
	ex.work = [][]decision{nil}
	rep := &HarnessReport{Name: name, Ends: map[string]int{}, Reached: map[string]int{}, KnownHits: map[string]*Violation{},
		Funcs: map[string]int64{}, AssertsByID: map[string]int{}}
	var mu sync.Mutex
	var wg sync.WaitGroup
	var firstErr error
	for w := 0; w < cfg.Workers; w++ {
		wg.Add(1)
		go func(w int) {
			defer wg.Done()
			c := cfg
			i, err := p.newInterp(&c, ex, kind, verbose && w == 0)
			if err != nil {
				mu.Lock()
				firstErr = err
				mu.Unlock()
				ex.mu.Lock()
				ex.stop = true
				ex.mu.Unlock()
				ex.cond.Broadcast()
				return
			}
			defer i.solver.Close()
			for {
				prefix, ok := ex.pop()
				if !ok {
					break
				}
				res := i.runPath(fn, prefix)
				mu.Lock()
				rep.Paths++
				rep.Ends[res.End]++
				rep.Decisions += res.Decisions
				for _, l := range res.Reached {
					rep.Reached[l]++
				}
				switch res.End {
				case "done", "infeasible", "violation", "known", "panic-known":
				case "outside":
					rep.BoundsNotes = appendUnique(rep.BoundsNotes, "path cut (outside modelled region): "+res.Msg)
				default:
					rep.Inconclusive = appendUnique(rep.Inconclusive, res.End+": "+firstLine(res.Msg))
					if verbose {
						fmt.Fprintf(os.Stderr, "symgo: path ended %s: %s\n", res.End, res.Msg)
					}
				}
				if res.Tape != nil && len(rep.Witnesses) < 64 {
					rep.Witnesses = append(rep.Witnesses, res)
				}
				stop := false
				if cfg.MaxPaths > 0 && rep.Paths >= cfg.MaxPaths {
					rep.MaxPathsHit = true
					stop = true
				}
				if cfg.StopAtFirst && len(i.rep.violations) > 0 {
					stop = true
				}
				// a check needs one confirmed counterexample, not all of them: once this worker has a
				// few (the first may fail its native replay) the exploration ends - a change that breaks
				// the code under test can otherwise multiply paths without bound
				if cfg.StopAfterViolations > 0 && len(i.rep.violations) >= cfg.StopAfterViolations {
					stop = true
				}
				if i.solver.dead {
					// nothing decided after this point can be trusted: end the exploration as inconclusive
					rep.Inconclusive = appendUnique(rep.Inconclusive, "solver process lost: "+i.solver.lastErr)
					stop = true
				}
				mu.Unlock()
				if stop {
					ex.mu.Lock()
					ex.stop = true
					ex.mu.Unlock()
					ex.cond.Broadcast()
				}
				ex.done()
			}
			mu.Lock()
			rep.Obligations += i.rep.obligations
			rep.Discharged += i.rep.discharged
			rep.Violations = append(rep.Violations, i.rep.violations...)
			for k, v := range i.rep.known {
				if _, ok := rep.KnownHits[k]; !ok {
					rep.KnownHits[k] = v
				}
			}
			for k, v := range i.rep.assertIDs {
				rep.AssertsByID[k] += v
			}
			rep.SolverQueries += i.queries
			rep.SolverSat += i.solver.Stats.Sat
			rep.SolverUnsat += i.solver.Stats.Unsat
			rep.SolverUnknown += i.solver.Stats.Unknown
			rep.SolverTime += i.solver.Stats.Time
			rep.ModelTime += i.solver.Stats.ModelTime
			for _, m := range i.inconclusive {
				rep.Inconclusive = appendUnique(rep.Inconclusive, m)
			}
			for m := range i.cutNotes {
				rep.BoundsNotes = appendUnique(rep.BoundsNotes, "deliberate cut: "+m)
			}
			for f, n := range i.funcSteps {
				rep.Funcs[f.String()] += n
			}
			rep.Steps += i.totalSteps
			mu.Unlock()
		}(w)
	}
	wg.Wait()
	if firstErr != nil {
		return nil, firstErr
	}
	if rep.MaxPathsHit {
		rep.Inconclusive = appendUnique(rep.Inconclusive, fmt.Sprintf("path budget of %d exhausted before the exploration finished", cfg.MaxPaths))
	}
	rep.Wall = time.Since(start)
	return rep, nil
}

func appendUnique(xs []string, s string) []string {
	for _, x := range xs {
		if x == s {
			return xs
		}
	}
	if len(xs) >= 40 {
		return xs
	}
	return append(xs, s)
}

func firstLine(s string) string {
	if k := strings.IndexByte(s, '\n'); k >= 0 {
		return s[:k]
	}
	return s
}

// TopFuncs returns the functions with the most executed instructions.
func (r *HarnessReport) TopFuncs(n int, filter func(string) bool) []string {
	type kv struct {
		k string
		v int64
	}
	var all []kv
	for k, v := range r.Funcs {
		if filter == nil || filter(k) {
			all = append(all, kv{k, v})
		}
	}
	sort.Slice(all, func(a, b int) bool {
		if all[a].v != all[b].v {
			return all[a].v > all[b].v
		}
		return all[a].k < all[b].k
	})
	var out []string
	for k := 0; k < len(all) && k < n; k++ {
		out = append(out, fmt.Sprintf("%s:%d", all[k].k, all[k].v))
	}
	return out
}
