package symgo

// Value kinds added to the interpreter: symbolic scalars (*Term), strings with
// symbolic bytes (symString), deterministic ordered maps (*omap), channels as
// queues (*channel), native function values (nativeFn).

import (
	"fmt"
	"go/types"
	"unicode/utf8"
	"unsafe"

	"golang.org/x/tools/go/ssa"
)

// symString is a string at least one of whose bytes is a *Term (sort BV8).
// It is immutable once built.
type symString []value

// nativeFn is a function value implemented by the engine.
type nativeFn struct {
	name string
	fn   func(fr *frame, args []value) value
}

// channel is a FIFO queue; goroutines run eagerly so blocking ends the path.
type channel struct {
	buf    []value
	cap    int
	closed bool
}

// omap is an insertion-ordered map. Concrete basic keys are indexed natively;
// keys containing symbolic parts are compared with eqv (forking).
type omap struct {
	keyType types.Type
	keys    []value
	vals    []value
	idx     map[interface{}]int // concrete comparable key -> position
	nsym    int                 // number of keys that are not natively indexable
}

func newOmap(kt types.Type) *omap {
	return &omap{keyType: kt, idx: map[interface{}]int{}}
}

// nativeKey reports whether k can be used as a Go map key with Go's ==
// coinciding with the target program's ==.
func nativeKey(k value) (interface{}, bool) {
	switch k := k.(type) {
	case bool, int, int8, int16, int32, int64, uint, uint8, uint16, uint32, uint64, uintptr, float32, float64, string, *value, *channel:
		return k, true
	case iface:
		if k.t == nil {
			return k, true
		}
		if _, ok := nativeKey(k.v); ok {
			// types.Type identity is by pointer for named types; use string form to be safe
			return [2]interface{}{k.t.String(), k.v}, true
		}
	}
	return nil, false
}

func (m *omap) reindex() {
	m.idx = map[interface{}]int{}
	m.nsym = 0
	for i, k := range m.keys {
		if nk, ok := nativeKey(k); ok {
			m.idx[nk] = i
		} else {
			m.nsym++
		}
	}
}

// find returns the position of key k or -1; may fork.
func (i *interpreter) mapFind(m *omap, k value) int {
	if m == nil {
		return -1
	}
	if nk, ok := nativeKey(k); ok {
		if p, ok := m.idx[nk]; ok {
			return p
		}
		if m.nsym == 0 {
			return -1
		}
		for p, mk := range m.keys {
			if _, ok := nativeKey(mk); ok {
				continue
			}
			if i.truth(i.eqv(m.keyType, mk, k)) {
				return p
			}
		}
		return -1
	}
	for p, mk := range m.keys {
		if i.truth(i.eqv(m.keyType, mk, k)) {
			return p
		}
	}
	return -1
}

func (i *interpreter) mapLookup(m *omap, k value) (value, bool) {
	p := i.mapFind(m, k)
	if p < 0 {
		return nil, false
	}
	return m.vals[p], true
}

func (i *interpreter) mapInsert(m *omap, k, v value) {
	if m == nil {
		panic(targetPanic{i.runtimeErr("assignment to entry in nil map")})
	}
	p := i.mapFind(m, k)
	if p >= 0 {
		m.vals[p] = v
		return
	}
	m.keys = append(m.keys, k)
	m.vals = append(m.vals, v)
	if nk, ok := nativeKey(k); ok {
		m.idx[nk] = len(m.keys) - 1
	} else {
		m.nsym++
	}
}

func (i *interpreter) mapDelete(m *omap, k value) {
	p := i.mapFind(m, k)
	if p < 0 {
		return
	}
	m.keys = append(m.keys[:p:p], m.keys[p+1:]...)
	m.vals = append(m.vals[:p:p], m.vals[p+1:]...)
	m.reindex()
}

func (m *omap) length() int {
	if m == nil {
		return 0
	}
	return len(m.keys)
}

// ---- truth of a possibly symbolic boolean (forks)

func (i *interpreter) truth(v value) bool {
	switch v := v.(type) {
	case bool:
		return v
	case *Term:
		return i.branch(v)
	}
	panic(fmt.Sprintf("truth: unexpected %T", v))
}

// ---- strings

func isSymStr(v value) bool { _, ok := v.(symString); return ok }

// mkString normalises a byte sequence into string or symString.
func mkString(bs []value) value {
	conc := true
	for _, b := range bs {
		if _, ok := b.(*Term); ok {
			conc = false
			break
		}
	}
	if conc {
		out := make([]byte, len(bs))
		for k, b := range bs {
			out[k] = b.(byte)
		}
		return string(out)
	}
	return symString(append([]value(nil), bs...))
}

func strBytes(v value) []value {
	switch v := v.(type) {
	case string:
		out := make([]value, len(v))
		for k := 0; k < len(v); k++ {
			out[k] = v[k]
		}
		return out
	case symString:
		return []value(v)
	}
	panic(fmt.Sprintf("strBytes: %T", v))
}

func strLen(v value) int {
	switch v := v.(type) {
	case string:
		return len(v)
	case symString:
		return len(v)
	}
	panic(fmt.Sprintf("strLen: %T", v))
}

func (i *interpreter) byteTerm(b value) *Term {
	switch b := b.(type) {
	case byte:
		return i.ts.BV(8, uint64(b))
	case *Term:
		return b
	}
	panic(fmt.Sprintf("byteTerm: %T", b))
}

// strEq returns bool or *Term.
func (i *interpreter) strEq(x, y value) value {
	if xs, ok := x.(string); ok {
		if ys, ok := y.(string); ok {
			return xs == ys
		}
	}
	xb, yb := strBytes(x), strBytes(y)
	if len(xb) != len(yb) {
		return false
	}
	acc := i.ts.Bool(true)
	for k := range xb {
		acc = i.ts.And(acc, i.ts.Eq(i.byteTerm(xb[k]), i.byteTerm(yb[k])))
		if acc.IsConst() && acc.cv == 0 {
			return false
		}
	}
	return i.unterm(acc)
}

// strLess returns x < y as bool or *Term (lexicographic, bytewise).
func (i *interpreter) strLess(x, y value) value {
	xb, yb := strBytes(x), strBytes(y)
	n := len(xb)
	if len(yb) < n {
		n = len(yb)
	}
	// result = exists k: prefix equal and x[k] < y[k]; or all n equal and len(x) < len(y)
	res := i.ts.Bool(len(xb) < len(yb))
	for k := n - 1; k >= 0; k-- {
		a, b := i.byteTerm(xb[k]), i.byteTerm(yb[k])
		res = i.ts.Ite(i.ts.Eq(a, b), res, i.ts.BVCmp("bvult", a, b))
	}
	return i.unterm(res)
}

// unterm turns constant terms back into native Go values.
func (i *interpreter) unterm(t *Term) value {
	if t.IsConst() && t.sort == sBool {
		return t.cv == 1
	}
	return t
}

// ---- equality

func sameType(x, y types.Type) bool {
	if x == nil {
		return y == nil
	}
	return y != nil && types.Identical(x, y)
}

func (i *interpreter) andv(a, b value) value {
	if ab, ok := a.(bool); ok {
		if !ab {
			return false
		}
		return b
	}
	if bb, ok := b.(bool); ok {
		if !bb {
			return false
		}
		return a
	}
	return i.unterm(i.ts.And(a.(*Term), b.(*Term)))
}

func (i *interpreter) notv(a value) value {
	switch a := a.(type) {
	case bool:
		return !a
	case *Term:
		return i.unterm(i.ts.Not(a))
	}
	panic("notv")
}

// eqv returns x == y for type t as bool or *Term.
func (i *interpreter) eqv(t types.Type, x, y value) value {
	if xt, ok := x.(*Term); ok {
		return i.unterm(i.ts.Eq(xt, i.toTerm(y)))
	}
	if yt, ok := y.(*Term); ok {
		return i.unterm(i.ts.Eq(i.toTerm(x), yt))
	}
	switch x := x.(type) {
	case bool:
		return x == y.(bool)
	case int:
		return x == y.(int)
	case int8:
		return x == y.(int8)
	case int16:
		return x == y.(int16)
	case int32:
		return x == y.(int32)
	case int64:
		return x == y.(int64)
	case uint:
		return x == y.(uint)
	case uint8:
		return x == y.(uint8)
	case uint16:
		return x == y.(uint16)
	case uint32:
		return x == y.(uint32)
	case uint64:
		return x == y.(uint64)
	case uintptr:
		return x == y.(uintptr)
	case float32:
		return x == y.(float32)
	case float64:
		return x == y.(float64)
	case complex64:
		return x == y.(complex64)
	case complex128:
		return x == y.(complex128)
	case string, symString:
		return i.strEq(x, y)
	case *value:
		return x == y.(*value)
	case *channel:
		return x == y.(*channel)
	case unsafe.Pointer:
		return x == y.(unsafe.Pointer)
	case structure:
		ys := y.(structure)
		var tStruct *types.Struct
		if t != nil {
			tStruct, _ = t.Underlying().(*types.Struct)
		}
		var acc value = true
		for k := range x {
			var ft types.Type
			if tStruct != nil {
				f := tStruct.Field(k)
				if f.Name() == "_" {
					continue
				}
				ft = f.Type()
			}
			acc = i.andv(acc, i.eqv(ft, x[k], ys[k]))
			if b, ok := acc.(bool); ok && !b {
				return false
			}
		}
		return acc
	case array:
		ya := y.(array)
		var et types.Type
		if t != nil {
			if at, ok := t.Underlying().(*types.Array); ok {
				et = at.Elem()
			}
		}
		var acc value = true
		for k := range x {
			acc = i.andv(acc, i.eqv(et, x[k], ya[k]))
			if b, ok := acc.(bool); ok && !b {
				return false
			}
		}
		return acc
	case iface:
		yi := y.(iface)
		if !sameType(x.t, yi.t) {
			return false
		}
		if x.t == nil {
			return true
		}
		if !types.Comparable(x.t) {
			panic(targetPanic{i.runtimeErr("comparing uncomparable type " + x.t.String())})
		}
		return i.eqv(x.t, x.v, yi.v)
	}
	panic(fmt.Sprintf("comparing uncomparable type %v (%T)", t, x))
}

// eqnilv is == for types that may only be compared with nil.
func (i *interpreter) eqnilv(t types.Type, x, y value) value {
	switch t.Underlying().(type) {
	case *types.Map, *types.Signature, *types.Slice:
		return isNilRef(x) == isNilRef(y)
	}
	return i.eqv(t, x, y)
}

func isNilRef(x value) bool {
	switch x := x.(type) {
	case *omap:
		return x == nil
	case *ssa.Function:
		return x == nil
	case *closure:
		return x == nil
	case *ssa.Builtin:
		return x == nil
	case nativeFn:
		return false
	case []value:
		return x == nil
	}
	panic(fmt.Sprintf("isNilRef: illegal dynamic type: %T", x))
}

// toTerm converts a concrete scalar to a constant term.
func (i *interpreter) toTerm(v value) *Term {
	switch v := v.(type) {
	case *Term:
		return v
	case bool:
		return i.ts.Bool(v)
	case int:
		return i.ts.BV(64, uint64(v))
	case int8:
		return i.ts.BV(8, uint64(v))
	case int16:
		return i.ts.BV(16, uint64(v))
	case int32:
		return i.ts.BV(32, uint64(v))
	case int64:
		return i.ts.BV(64, uint64(v))
	case uint:
		return i.ts.BV(64, uint64(v))
	case uint8:
		return i.ts.BV(8, uint64(v))
	case uint16:
		return i.ts.BV(16, uint64(v))
	case uint32:
		return i.ts.BV(32, uint64(v))
	case uint64:
		return i.ts.BV(64, v)
	case uintptr:
		return i.ts.BV(64, uint64(v))
	case float64:
		return i.floatConst(v)
	case float32:
		return i.floatConst(float64(v))
	}
	panic(fmt.Sprintf("toTerm: unsupported %T", v))
}

// fromConst converts a constant BV/bool term into the native Go value of basic type t.
func fromConst(c *Term, t types.Type) value {
	if c.sort == sBool {
		return c.cv == 1
	}
	if c.sort.K == kFP {
		return c.fv
	}
	b, ok := t.Underlying().(*types.Basic)
	if !ok {
		panic(fmt.Sprintf("fromConst: non-basic type %v", t))
	}
	v := c.cv
	switch b.Kind() {
	case types.Bool:
		return v != 0
	case types.Int:
		return int(sext(v, 64))
	case types.Int8:
		return int8(v)
	case types.Int16:
		return int16(v)
	case types.Int32, types.UntypedRune:
		return int32(v)
	case types.Int64:
		return int64(v)
	case types.Uint:
		return uint(v)
	case types.Uint8:
		return uint8(v)
	case types.Uint16:
		return uint16(v)
	case types.Uint32:
		return uint32(v)
	case types.Uint64:
		return uint64(v)
	case types.Uintptr:
		return uintptr(v)
	}
	panic(fmt.Sprintf("fromConst: unsupported kind %v", b))
}

func basicWidth(t types.Type) (w int, signed bool, ok bool) {
	b, isB := t.Underlying().(*types.Basic)
	if !isB {
		return 0, false, false
	}
	switch b.Kind() {
	case types.Int, types.Int64, types.UntypedInt:
		return 64, true, true
	case types.Int8:
		return 8, true, true
	case types.Int16:
		return 16, true, true
	case types.Int32, types.UntypedRune:
		return 32, true, true
	case types.Uint, types.Uint64, types.Uintptr:
		return 64, false, true
	case types.Uint8:
		return 8, false, true
	case types.Uint16:
		return 16, false, true
	case types.Uint32:
		return 32, false, true
	}
	return 0, false, false
}

// norm returns a native value for constant terms of basic type t, else the term.
func (i *interpreter) norm(t *Term, typ types.Type) value {
	if t.IsConst() && (t.sort.K == kBV || t.sort.K == kBool) {
		return fromConst(t, typ)
	}
	if t.IsConst() && t.sort.K == kFP {
		if b, ok := typ.Underlying().(*types.Basic); ok && b.Kind() == types.Float32 {
			return float32(t.fv)
		}
		return t.fv
	}
	return t
}

// ---- iterators

type iter interface {
	next(i *interpreter) tuple
}

type stringIter struct {
	s   []value
	pos int
}

func (it *stringIter) next(i *interpreter) tuple {
	okv := make(tuple, 3)
	if it.pos >= len(it.s) {
		okv[0] = false
		return okv
	}
	okv[0] = true
	okv[1] = it.pos
	// decode one UTF-8 sequence
	conc := true
	n := 1
	if b0, ok := it.s[it.pos].(byte); ok {
		switch {
		case b0 < 0x80:
			n = 1
		case b0&0xE0 == 0xC0:
			n = 2
		case b0&0xF0 == 0xE0:
			n = 3
		case b0&0xF8 == 0xF0:
			n = 4
		}
		if it.pos+n > len(it.s) {
			n = len(it.s) - it.pos
		}
		for k := 0; k < n; k++ {
			if _, ok := it.s[it.pos+k].(byte); !ok {
				conc = false
			}
		}
	} else {
		conc = false
	}
	if conc {
		buf := make([]byte, n)
		for k := range buf {
			buf[k] = it.s[it.pos+k].(byte)
		}
		r, sz := decodeRune(buf)
		okv[2] = r
		it.pos += sz
		return okv
	}
	// symbolic bytes: follow unicode/utf8.DecodeRune exactly, forking on the byte classes
	r, sz := i.symDecodeRune(it.s[it.pos:])
	okv[2] = r
	it.pos += sz
	return okv
}

// symDecodeRune decodes one UTF-8 sequence whose bytes may be symbolic. It mirrors the
// table-driven unicode/utf8.DecodeRune: invalid or truncated sequences yield (RuneError, 1).
func (i *interpreter) symDecodeRune(p []value) (value, int) {
	ts := i.ts
	const runeError = int32(0xFFFD)
	in := func(b *Term, lo, hi uint64) *Term {
		return ts.And(ts.BVCmp("bvule", ts.BV(8, lo), b), ts.BVCmp("bvule", b, ts.BV(8, hi)))
	}
	b0 := i.byteTerm(p[0])
	if i.branch(ts.BVCmp("bvult", b0, ts.BV(8, 0x80))) {
		return i.norm(ts.ZeroExt(24, b0), types.Typ[types.Int32]), 1
	}
	type class struct {
		lo, hi   uint64 // lead byte range
		sz       int
		alo, ahi uint64 // accepted range of the second byte
	}
	classes := []class{
		{0xC2, 0xDF, 2, 0x80, 0xBF},
		{0xE0, 0xE0, 3, 0xA0, 0xBF},
		{0xE1, 0xEC, 3, 0x80, 0xBF},
		{0xED, 0xED, 3, 0x80, 0x9F},
		{0xEE, 0xEF, 3, 0x80, 0xBF},
		{0xF0, 0xF0, 4, 0x90, 0xBF},
		{0xF1, 0xF3, 4, 0x80, 0xBF},
		{0xF4, 0xF4, 4, 0x80, 0x8F},
	}
	for _, c := range classes {
		if !i.branch(in(b0, c.lo, c.hi)) {
			continue
		}
		if len(p) < c.sz {
			return runeError, 1
		}
		b1 := i.byteTerm(p[1])
		if !i.branch(in(b1, c.alo, c.ahi)) {
			return runeError, 1
		}
		z := func(b *Term, m uint64) *Term { return ts.ZeroExt(24, ts.BVOp("bvand", b, ts.BV(8, m))) }
		sh := func(t *Term, n uint64) *Term { return ts.BVOp("bvshl", t, ts.BV(32, n)) }
		if c.sz == 2 {
			r := ts.BVOp("bvor", sh(z(b0, 0x1F), 6), z(b1, 0x3F))
			return i.norm(r, types.Typ[types.Int32]), 2
		}
		b2 := i.byteTerm(p[2])
		if !i.branch(in(b2, 0x80, 0xBF)) {
			return runeError, 1
		}
		if c.sz == 3 {
			r := ts.BVOp("bvor", ts.BVOp("bvor", sh(z(b0, 0x0F), 12), sh(z(b1, 0x3F), 6)), z(b2, 0x3F))
			return i.norm(r, types.Typ[types.Int32]), 3
		}
		b3 := i.byteTerm(p[3])
		if !i.branch(in(b3, 0x80, 0xBF)) {
			return runeError, 1
		}
		r := ts.BVOp("bvor", ts.BVOp("bvor", sh(z(b0, 0x07), 18), sh(z(b1, 0x3F), 12)), ts.BVOp("bvor", sh(z(b2, 0x3F), 6), z(b3, 0x3F)))
		return i.norm(r, types.Typ[types.Int32]), 4
	}
	return runeError, 1
}

type mapIter struct {
	m    *omap
	keys []value
	vals []value
	pos  int
}

func (it *mapIter) next(i *interpreter) tuple {
	for it.pos < len(it.keys) {
		k, v := it.keys[it.pos], it.vals[it.pos]
		it.pos++
		if nk, ok := nativeKey(k); ok {
			// entries deleted during iteration are not produced
			p, present := it.m.idx[nk]
			if !present {
				continue
			}
			v = it.m.vals[p]
		}
		return tuple{true, k, v}
	}
	return tuple{false, nil, nil}
}

func decodeRune(b []byte) (rune, int) { return utf8.DecodeRune(b) }
