package symgo

// Symbolic cases of the SSA operators: bit-precise Go semantics on terms.

import (
	"fmt"
	"go/token"
	"go/types"
	"math/big"
)

func isSym(v value) bool {
	switch v.(type) {
	case *Term, symString:
		return true
	}
	return false
}

func isFloatType(t types.Type) bool {
	b, ok := t.Underlying().(*types.Basic)
	return ok && b.Info()&types.IsFloat != 0
}

func (i *interpreter) floatSort() Sort {
	if i.cfg.FloatMode == "real" {
		return sReal
	}
	return sFP
}

func (i *interpreter) floatConst(f float64) *Term {
	if i.cfg.FloatMode == "real" {
		r := new(big.Rat)
		if r.SetFloat64(f) == nil {
			i.abort("unsupported", "non-finite float constant in real mode")
		}
		return i.ts.RealC(r)
	}
	return i.ts.FPC(f)
}

func (i *interpreter) runtimeErr(msg string) value {
	return iface{t: i.runtimeErrorString, v: "runtime error: " + msg}
}

func (i *interpreter) raise(msg string) {
	panic(targetPanic{i.runtimeErr(msg)})
}

// symBinop handles binary operators when at least one operand is symbolic.
func (i *interpreter) symBinop(op token.Token, tx, ty types.Type, x, y value) value {
	ts := i.ts
	// strings
	if isStringVal(x) || isStringVal(y) {
		switch op {
		case token.ADD:
			return mkString(append(append([]value(nil), strBytes(x)...), strBytes(y)...))
		case token.EQL:
			return i.strEq(x, y)
		case token.NEQ:
			return i.notv(i.strEq(x, y))
		case token.LSS:
			return i.strLess(x, y)
		case token.GTR:
			return i.strLess(y, x)
		case token.LEQ:
			return i.notv(i.strLess(y, x))
		case token.GEQ:
			return i.notv(i.strLess(x, y))
		}
		panic(fmt.Sprintf("symBinop: bad string op %s", op))
	}
	switch op {
	case token.EQL:
		return i.eqnilv(tx, x, y)
	case token.NEQ:
		return i.notv(i.eqnilv(tx, x, y))
	}
	if isFloatType(tx) {
		return i.symFloatBinop(op, tx, x, y)
	}
	if b, ok := tx.Underlying().(*types.Basic); ok && b.Info()&types.IsBoolean != 0 {
		panic(fmt.Sprintf("symBinop: bad bool op %s", op))
	}
	w, signed, ok := basicWidth(tx)
	if !ok {
		panic(fmt.Sprintf("symBinop: unsupported operand type %v for %s", tx, op))
	}
	a := i.toTerm(x)
	switch op {
	case token.SHL, token.SHR:
		// shift count: any integer type; negative signed count panics
		cw, csigned, _ := basicWidth(ty)
		c := i.toTerm(y)
		if csigned {
			if i.branch(ts.BVCmp("bvslt", c, ts.BV(cw, 0))) {
				i.raise("negative shift amount")
			}
		}
		var cnt *Term
		switch {
		case cw == w:
			cnt = c
		case cw < w:
			cnt = ts.ZeroExt(w-cw, c)
		default:
			big := ts.BVCmp("bvule", ts.BV(cw, uint64(w)), c)
			cnt = ts.Ite(big, ts.BV(w, uint64(w)), ts.Extract(w-1, 0, c))
		}
		var r *Term
		if op == token.SHL {
			r = ts.BVOp("bvshl", a, cnt)
		} else if signed {
			r = ts.BVOp("bvashr", a, cnt)
		} else {
			r = ts.BVOp("bvlshr", a, cnt)
		}
		return i.norm(r, tx)
	}
	b := i.toTerm(y)
	var r *Term
	switch op {
	case token.ADD:
		r = ts.BVOp("bvadd", a, b)
	case token.SUB:
		r = ts.BVOp("bvsub", a, b)
	case token.MUL:
		r = ts.BVOp("bvmul", a, b)
	case token.QUO, token.REM:
		if i.branch(ts.Eq(b, ts.BV(w, 0))) {
			i.raise("integer divide by zero")
		}
		name := "bvudiv"
		if op == token.REM {
			name = "bvurem"
		}
		if signed {
			name = "bvsdiv"
			if op == token.REM {
				name = "bvsrem"
			}
		}
		r = ts.BVOp(name, a, b)
	case token.AND:
		r = ts.BVOp("bvand", a, b)
	case token.OR:
		r = ts.BVOp("bvor", a, b)
	case token.XOR:
		r = ts.BVOp("bvxor", a, b)
	case token.AND_NOT:
		r = ts.BVOp("bvand", a, ts.BVNot(b))
	case token.LSS, token.LEQ, token.GTR, token.GEQ:
		lt, le := "bvult", "bvule"
		if signed {
			lt, le = "bvslt", "bvsle"
		}
		var c *Term
		switch op {
		case token.LSS:
			c = ts.BVCmp(lt, a, b)
		case token.LEQ:
			c = ts.BVCmp(le, a, b)
		case token.GTR:
			c = ts.BVCmp(lt, b, a)
		case token.GEQ:
			c = ts.BVCmp(le, b, a)
		}
		return i.unterm(c)
	default:
		panic(fmt.Sprintf("symBinop: invalid op %s", op))
	}
	return i.norm(r, tx)
}

func isStringVal(v value) bool {
	switch v.(type) {
	case string, symString:
		return true
	}
	return false
}

func (i *interpreter) symFloatBinop(op token.Token, t types.Type, x, y value) value {
	ts := i.ts
	a, b := i.toTerm(x), i.toTerm(y)
	real := i.cfg.FloatMode == "real"
	s := i.floatSort()
	switch op {
	case token.ADD, token.SUB, token.MUL, token.QUO:
		if real {
			name := map[token.Token]string{token.ADD: "+", token.SUB: "-", token.MUL: "*", token.QUO: "/"}[op]
			return ts.Arith(name, s, a, b)
		}
		name := map[token.Token]string{token.ADD: "fp.add", token.SUB: "fp.sub", token.MUL: "fp.mul", token.QUO: "fp.div"}[op]
		return ts.Generic(name, s, a, b)
	case token.LSS, token.LEQ, token.GTR, token.GEQ:
		if real {
			name := map[token.Token]string{token.LSS: "<", token.LEQ: "<=", token.GTR: ">", token.GEQ: ">="}[op]
			return i.unterm(ts.ArithCmp(name, a, b))
		}
		name := map[token.Token]string{token.LSS: "fp.lt", token.LEQ: "fp.leq", token.GTR: "fp.gt", token.GEQ: "fp.geq"}[op]
		return ts.Generic(name, sBool, a, b)
	}
	panic(fmt.Sprintf("symFloatBinop: invalid op %s", op))
}

func (i *interpreter) symUnop(op token.Token, t types.Type, x *Term) value {
	ts := i.ts
	switch op {
	case token.NOT:
		return i.unterm(ts.Not(x))
	case token.SUB:
		if isFloatType(t) {
			if i.cfg.FloatMode == "real" {
				return ts.Arith("-", sReal, ts.RealC(new(big.Rat)), x)
			}
			return ts.Generic("fp.neg", sFP, x)
		}
		return i.norm(ts.BVNeg(x), t)
	case token.XOR:
		return i.norm(ts.BVNot(x), t)
	}
	panic(fmt.Sprintf("symUnop: invalid op %s", op))
}

// symConv converts a symbolic scalar between basic types.
func (i *interpreter) symConv(tDst, tSrc types.Type, x *Term) value {
	ts := i.ts
	dw, _, dIsInt := basicWidth(tDst)
	sw, sSigned, sIsInt := basicWidth(tSrc)
	_ = sw
	switch {
	case sIsInt && dIsInt:
		return i.norm(ts.Resize(x, dw, sSigned), tDst)
	case sIsInt && isFloatType(tDst):
		if i.cfg.FloatMode == "real" {
			var n *Term
			if l, _, ok := ts.liftInt(x); ok && sSigned {
				n = l
			} else if sSigned {
				// signed value of a bit-vector as Int: ubv - 2^w * msb
				u := ts.Generic("bv2nat", sInt, x)
				msb := ts.BVCmp("bvslt", x, ts.BV(x.sort.W, 0))
				p := new(big.Rat).SetInt(new(big.Int).Lsh(big.NewInt(1), uint(x.sort.W)))
				pow := ts.intern("ci:"+p.String(), func() *Term { return &Term{op: "const", sort: sInt, big: p} })
				n = ts.Ite(msb, ts.Arith("-", sInt, u, pow), u)
			} else {
				n = ts.Generic("bv2nat", sInt, x)
			}
			return ts.Generic("to_real", sReal, n)
		}
		if sSigned {
			return ts.Generic("to_fp_sbv", sFP, x)
		}
		return ts.Generic("to_fp_ubv", sFP, x)
	case isFloatType(tSrc) && isFloatType(tDst):
		return x // float32 is not modelled separately
	case isFloatType(tSrc) && dIsInt:
		if i.cfg.FloatMode == "real" {
			i.abort("unsupported", "float->int conversion in real mode")
		}
		_, dSigned, _ := basicWidth(tDst)
		if dSigned {
			return ts.mk("fp.to_sbv", sBV(dw), dw, 0, x)
		}
		return ts.mk("fp.to_ubv", sBV(dw), dw, 0, x)
	}
	if b, ok := tDst.Underlying().(*types.Basic); ok && b.Kind() == types.String {
		return i.symRuneToString(x, sSigned)
	}
	if tb, ok := tSrc.Underlying().(*types.Basic); ok && tb.Info()&types.IsBoolean != 0 {
		return x
	}
	panic(fmt.Sprintf("symConv: unsupported %v -> %v", tSrc, tDst))
}

// symRuneToString implements string(r) for a symbolic integer: UTF-8 encoding, forking on the
// encoding length; invalid code points (surrogates, > 0x10FFFF, negative) become "\uFFFD".
func (i *interpreter) symRuneToString(x *Term, signed bool) value {
	ts := i.ts
	w := x.sort.W
	r := x
	if w < 32 {
		r = ts.Resize(x, 32, signed)
	} else if w > 32 {
		// values outside 32 bits are invalid
		fits := ts.Eq(ts.Resize(ts.Extract(31, 0, x), w, signed), x)
		if !i.branch(fits) {
			return "\uFFFD"
		}
		r = ts.Extract(31, 0, x)
	}
	c := func(v uint64) *Term { return ts.BV(32, v) }
	lt := func(a *Term, v uint64) *Term { return ts.BVCmp("bvult", a, c(v)) }
	b8 := func(t *Term) *Term { return ts.Extract(7, 0, t) }
	shr := func(t *Term, n uint64) *Term { return ts.BVOp("bvlshr", t, c(n)) }
	or := func(t *Term, v uint64) *Term { return ts.BVOp("bvor", t, c(v)) }
	and := func(t *Term, v uint64) *Term { return ts.BVOp("bvand", t, c(v)) }
	if i.branch(lt(r, 0x80)) {
		return mkString([]value{i.norm(b8(r), types.Typ[types.Uint8])})
	}
	if i.branch(lt(r, 0x800)) {
		return mkString([]value{b8(or(shr(r, 6), 0xC0)), b8(or(and(r, 0x3F), 0x80))})
	}
	surrogate := ts.And(ts.BVCmp("bvule", c(0xD800), r), ts.BVCmp("bvule", r, c(0xDFFF)))
	if i.branch(ts.Or(surrogate, ts.BVCmp("bvult", c(0x10FFFF), r))) {
		return "\uFFFD"
	}
	if i.branch(lt(r, 0x10000)) {
		return mkString([]value{b8(or(shr(r, 12), 0xE0)), b8(or(and(shr(r, 6), 0x3F), 0x80)), b8(or(and(r, 0x3F), 0x80))})
	}
	return mkString([]value{b8(or(shr(r, 18), 0xF0)), b8(or(and(shr(r, 12), 0x3F), 0x80)), b8(or(and(shr(r, 6), 0x3F), 0x80)), b8(or(and(r, 0x3F), 0x80))})
}
