package symgo

// Engine-native implementations: functions without Go bodies (assembly,
// runtime linknames), functions built on unsafe/reflect, the environment
// stubs (clock, logging, context), and the harness API (vp*).

import (
	"fmt"
	"go/types"
	"math"
	"os"
	"strings"
	"unsafe"

	"golang.org/x/tools/go/ssa"
)

type externalFn func(fr *frame, args []value) value

var externals = map[string]externalFn{}

// prefix/suffix matchers for generic instantiations and method families
type extPattern struct {
	prefix, suffix string
	fn             externalFn
}

var extPatterns []extPattern

func (i *interpreter) external(fn *ssa.Function) externalFn {
	if e, ok := i.extCache[fn]; ok {
		return e
	}
	name := fn.String()
	e := externals[name]
	if e == nil {
		for _, p := range extPatterns {
			if strings.HasPrefix(name, p.prefix) && strings.Contains(name, p.suffix) {
				e = p.fn
				break
			}
		}
	}
	if e == nil && fn.Pkg != nil && fn.Pkg.Pkg.Path() == HarnessPkgPath && strings.HasPrefix(fn.Name(), "vp") {
		if h, ok := harnessAPI[fn.Name()]; ok {
			e = h
		}
	}
	if e == nil && fn.Blocks == nil && fn.Pkg != nil && i.inInit {
		// calls into body-less functions during package initialisation return zero values
		sig := fn.Signature
		e = func(fr *frame, args []value) value { return zeroResults(sig) }
	}
	i.extCache[fn] = e
	return e
}

func zeroResults(sig *types.Signature) value {
	switch sig.Results().Len() {
	case 0:
		return nil
	case 1:
		return zero(sig.Results().At(0).Type())
	}
	return zero(sig.Results())
}

// HarnessPkgPath is the import path of the package the harness files are injected into.
var HarnessPkgPath = "github.com/absfs/absnfs"

func noop(fr *frame, args []value) value { return nil }

func retZero(fr *frame, args []value) value { return zeroResults(fr.fn.Signature) }

func init() {
	for k, v := range map[string]externalFn{
		// ---- runtime / misc
		"runtime.GC":                 noop,
		"runtime.Gosched":            noop,
		"runtime.KeepAlive":          noop,
		"runtime.SetFinalizer":       noop,
		"runtime.NumCPU":             func(fr *frame, args []value) value { return 4 },
		"runtime.GOMAXPROCS":         func(fr *frame, args []value) value { return 4 },
		"runtime.NumGoroutine":       func(fr *frame, args []value) value { return 1 },
		"runtime.ReadMemStats":       noop,
		"runtime/debug.SetGCPercent": func(fr *frame, args []value) value { return 100 },
		"os.Getenv":                  func(fr *frame, args []value) value { return "" },
		"os.Getpid":                  func(fr *frame, args []value) value { return 4242 },
		"os.Exit": func(fr *frame, args []value) value {
			fr.i.abort("exit", "os.Exit called")
			return nil
		},

		// ---- math
		"math.Float64bits":     func(fr *frame, args []value) value { return math.Float64bits(args[0].(float64)) },
		"math.Float64frombits": func(fr *frame, args []value) value { return math.Float64frombits(args[0].(uint64)) },
		"math.Float32bits":     func(fr *frame, args []value) value { return math.Float32bits(args[0].(float32)) },
		"math.Float32frombits": func(fr *frame, args []value) value { return math.Float32frombits(args[0].(uint32)) },
		"math.Abs":             func(fr *frame, args []value) value { return math.Abs(args[0].(float64)) },
		"math.Floor":           func(fr *frame, args []value) value { return math.Floor(args[0].(float64)) },
		"math.Ceil":            func(fr *frame, args []value) value { return math.Ceil(args[0].(float64)) },
		"math.Sqrt":            func(fr *frame, args []value) value { return math.Sqrt(args[0].(float64)) },
		"math.Inf":             func(fr *frame, args []value) value { return math.Inf(args[0].(int)) },
		"math.IsNaN":           func(fr *frame, args []value) value { return math.IsNaN(args[0].(float64)) },
		"math.IsInf":           func(fr *frame, args []value) value { return math.IsInf(args[0].(float64), args[1].(int)) },
		"math.NaN":             func(fr *frame, args []value) value { return math.NaN() },
		"math.Min":             extMathMin,
		"math.Max":             extMathMax,

		// ---- internal/bytealg (assembly)
		"internal/bytealg.IndexByte":       extIndexByte,
		"internal/bytealg.IndexByteString": extIndexByte,
		"internal/bytealg.Count":           extCountByte,
		"internal/bytealg.CountString":     extCountByte,
		"internal/bytealg.Equal":           extBytesEqual,
		"internal/bytealg.Compare":         extBytesCompare,
		"internal/bytealg.Index":           extIndexSeq,
		"internal/bytealg.IndexString":     extIndexSeq,
		"internal/bytealg.MakeNoZero": func(fr *frame, args []value) value {
			n := args[0].(int)
			s := make([]value, n)
			for k := range s {
				s[k] = byte(0)
			}
			return s
		},
		"bytes.Equal":                    extBytesEqual,
		"bytes.Compare":                  extBytesCompare,
		"bytes.IndexByte":                extIndexByte,
		"strings.IndexByte":              extIndexByte,
		"strings.Index":                  extIndexSeq,
		"bytes.Index":                    extIndexSeq,
		"internal/stringslite.Index":     extIndexSeq,
		"internal/stringslite.IndexByte": extIndexByte,
		"strings.Compare": func(fr *frame, args []value) value {
			return extBytesCompare(fr, args)
		},

		// ---- strings.Builder (unsafe)
		"(*strings.Builder).String":      extBuilderString,
		"(*strings.Builder).copyCheck":   noop,
		"(*strings.Builder).grow":        noop,
		"(*strings.Builder).Grow":        noop,
		"(*strings.Builder).WriteString": extBuilderWriteString,
		"strings.Clone":                  func(fr *frame, args []value) value { return args[0] },
		"unique.Make[string]":            nil,

		// ---- sync/atomic functions (assembly); sequential semantics
		"sync/atomic.LoadInt32":             extAtomicLoad,
		"sync/atomic.LoadInt64":             extAtomicLoad,
		"sync/atomic.LoadUint32":            extAtomicLoad,
		"sync/atomic.LoadUint64":            extAtomicLoad,
		"sync/atomic.LoadUintptr":           extAtomicLoad,
		"sync/atomic.LoadPointer":           extAtomicLoad,
		"sync/atomic.StoreInt32":            extAtomicStore,
		"sync/atomic.StoreInt64":            extAtomicStore,
		"sync/atomic.StoreUint32":           extAtomicStore,
		"sync/atomic.StoreUint64":           extAtomicStore,
		"sync/atomic.StoreUintptr":          extAtomicStore,
		"sync/atomic.StorePointer":          extAtomicStore,
		"sync/atomic.AddInt32":              extAtomicAdd,
		"sync/atomic.AddInt64":              extAtomicAdd,
		"sync/atomic.AddUint32":             extAtomicAdd,
		"sync/atomic.AddUint64":             extAtomicAdd,
		"sync/atomic.AddUintptr":            extAtomicAdd,
		"sync/atomic.SwapInt32":             extAtomicSwap,
		"sync/atomic.SwapInt64":             extAtomicSwap,
		"sync/atomic.SwapUint32":            extAtomicSwap,
		"sync/atomic.SwapUint64":            extAtomicSwap,
		"sync/atomic.SwapPointer":           extAtomicSwap,
		"sync/atomic.CompareAndSwapInt32":   extAtomicCAS,
		"sync/atomic.CompareAndSwapInt64":   extAtomicCAS,
		"sync/atomic.CompareAndSwapUint32":  extAtomicCAS,
		"sync/atomic.CompareAndSwapUint64":  extAtomicCAS,
		"sync/atomic.CompareAndSwapUintptr": extAtomicCAS,
		"sync/atomic.CompareAndSwapPointer": extAtomicCAS,
		"sync/atomic.AndInt32":              nil,
		"sync/atomic.OrUint32":              nil,
		"(*sync/atomic.Value).Load":         extAtomicValueLoad,
		"(*sync/atomic.Value).Store":        extAtomicValueStore,

		// ---- sync runtime hooks
		"sync.runtime_Semacquire": func(fr *frame, args []value) value {
			fr.i.abort("blocked", "semaphore acquire (WaitGroup.Wait / contended lock) in %s", callerName(fr))
			return nil
		},
		"sync.runtime_SemacquireMutex": func(fr *frame, args []value) value {
			fr.i.abort("blocked", "mutex acquire would block in %s", callerName(fr))
			return nil
		},
		"sync.runtime_SemacquireRWMutexR": func(fr *frame, args []value) value {
			fr.i.abort("blocked", "rwmutex read acquire would block in %s", callerName(fr))
			return nil
		},
		"sync.runtime_SemacquireRWMutex": func(fr *frame, args []value) value {
			fr.i.abort("blocked", "rwmutex acquire would block in %s", callerName(fr))
			return nil
		},
		"sync.runtime_Semrelease":          noop,
		"sync.runtime_registerPoolCleanup": noop,
		"sync.runtime_procPin":             func(fr *frame, args []value) value { return 0 },
		"sync.runtime_procUnpin":           noop,
		"sync.fatal": func(fr *frame, args []value) value {
			fr.i.abort("panic", "fatal error: %s", toString(args[0]))
			return nil
		},
		"sync.throw": func(fr *frame, args []value) value {
			fr.i.abort("panic", "fatal error: %s", toString(args[0]))
			return nil
		},
		"(*sync.Pool).Get": extPoolGet,
		"(*sync.Pool).Put": noop,

		// ---- logging: formatting is not the subject of any property
		"(*log.Logger).Printf":  noop,
		"(*log.Logger).Println": noop,
		"(*log.Logger).Print":   noop,
		"(*log.Logger).Output":  retZero,
		"log.Printf":            noop,
		"log.Println":           noop,
		"log.Print":             noop,
		"log.New": func(fr *frame, args []value) value {
			v := zero(mustDeref(fr.fn.Signature.Results().At(0).Type()))
			return &v
		},

		// ---- context: never cancelled, no deadline
		"context.WithTimeout":  extContextWithTimeout,
		"context.WithCancel":   extContextWith,
		"context.WithDeadline": extContextWith,

		// ---- time
		"time.now":               extTimeNow,
		"time.runtimeNano":       extRuntimeNano,
		"time.Sleep":             noop,
		"time.NewTimer":          extNewTimer,
		"time.NewTicker":         extNewTicker,
		"time.After":             func(fr *frame, args []value) value { return (*channel)(nil) },
		"time.AfterFunc":         extNewTimer,
		"(*time.Timer).Stop":     func(fr *frame, args []value) value { return true },
		"(*time.Timer).Reset":    func(fr *frame, args []value) value { return true },
		"(*time.Ticker).Stop":    noop,
		"(*time.Ticker).Reset":   noop,
		"(time.Time).String":     func(fr *frame, args []value) value { return "<time>" },
		"(time.Time).Format":     func(fr *frame, args []value) value { return "<time>" },
		"(time.Duration).String": func(fr *frame, args []value) value { return "<duration>" },

		// ---- fmt / errors
		"fmt.Errorf":    extErrorf,
		"fmt.Sprintf":   extSprintf,
		"fmt.Sprint":    extSprint,
		"fmt.Sprintln":  extSprint,
		"fmt.Printf":    retZero,
		"fmt.Println":   retZero,
		"fmt.Fprintf":   retZero,
		"fmt.Fprintln":  retZero,
		"fmt.Fprint":    retZero,
		"fmt.Sscanf":    nil,
		"errors.Is":     extErrorsIs,
		"errors.As":     extErrorsAs,
		"errors.Unwrap": extErrorsUnwrap,
		"errors.Join":   nil,

		// ---- strconv on concrete values
		"strconv.Itoa": func(fr *frame, args []value) value {
			if _, ok := args[0].(*Term); ok {
				return "<int>"
			}
			return fmt.Sprint(args[0].(int))
		},
	} {
		if v != nil {
			externals[k] = v
		}
	}
	extPatterns = []extPattern{
		{"(*sync/atomic.Pointer[", "]).Load[", extAtomicPtrLoad},
		{"(*sync/atomic.Pointer[", "]).Store[", extAtomicPtrStore},
		{"(*sync/atomic.Pointer[", "]).Swap[", extAtomicPtrSwap},
		{"(*sync/atomic.Pointer[", "]).CompareAndSwap[", extAtomicPtrCAS},
		{"unique.Make[", "]", extUniqueMake},
	}
}

// unique.Make[T]: the real one goes through a concurrent map and weak pointers; here a handle is
// a pointer to one canonical cell per distinct (concrete) value, so handles compare equal exactly
// when the values do. net/netip uses it for the address family / zone of every Addr.
func extUniqueMake(fr *frame, args []value) value {
	i := fr.i
	if i.uniqueCells == nil {
		i.uniqueCells = map[string]*value{}
	}
	key := fr.fn.String() + "|" + fmt.Sprintf("%#v", args[0])
	cell, ok := i.uniqueCells[key]
	if !ok {
		v := args[0]
		cell = &v
		i.uniqueCells[key] = cell
	}
	return structure{cell}
}

// ---- helpers over byte sequences

func seqOf(v value) []value {
	switch v := v.(type) {
	case []value:
		return v
	case string, symString:
		return strBytes(v)
	}
	panic(fmt.Sprintf("seqOf: %T", v))
}

func (i *interpreter) byteEq(a, b value) value {
	if x, ok := a.(byte); ok {
		if y, ok := b.(byte); ok {
			return x == y
		}
	}
	return i.unterm(i.ts.Eq(i.byteTerm(a), i.byteTerm(b)))
}

func extIndexByte(fr *frame, args []value) value {
	s := seqOf(args[0])
	for k, b := range s {
		if fr.i.truth(fr.i.byteEq(b, args[1])) {
			return k
		}
	}
	return -1
}

func extCountByte(fr *frame, args []value) value {
	s := seqOf(args[0])
	n := 0
	for _, b := range s {
		if fr.i.truth(fr.i.byteEq(b, args[1])) {
			n++
		}
	}
	return n
}

func extBytesEqual(fr *frame, args []value) value {
	a, b := seqOf(args[0]), seqOf(args[1])
	if len(a) != len(b) {
		return false
	}
	var acc value = true
	for k := range a {
		acc = fr.i.andv(acc, fr.i.byteEq(a[k], b[k]))
		if bb, ok := acc.(bool); ok && !bb {
			return false
		}
	}
	return acc
}

func extBytesCompare(fr *frame, args []value) value {
	a, b := seqOf(args[0]), seqOf(args[1])
	i := fr.i
	n := len(a)
	if len(b) < n {
		n = len(b)
	}
	for k := 0; k < n; k++ {
		if i.truth(i.byteEq(a[k], b[k])) {
			continue
		}
		lt := i.unterm(i.ts.BVCmp("bvult", i.byteTerm(a[k]), i.byteTerm(b[k])))
		if i.truth(lt) {
			return -1
		}
		return 1
	}
	switch {
	case len(a) < len(b):
		return -1
	case len(a) > len(b):
		return 1
	}
	return 0
}

func extIndexSeq(fr *frame, args []value) value {
	a, b := seqOf(args[0]), seqOf(args[1])
	i := fr.i
	if len(b) == 0 {
		return 0
	}
	for k := 0; k+len(b) <= len(a); k++ {
		var acc value = true
		for j := range b {
			acc = i.andv(acc, i.byteEq(a[k+j], b[j]))
			if bb, ok := acc.(bool); ok && !bb {
				break
			}
		}
		if i.truth(acc) {
			return k
		}
	}
	return -1
}

// ---- strings.Builder: struct{addr *Builder; buf []byte}

func extBuilderString(fr *frame, args []value) value {
	p := args[0].(*value)
	st := (*p).(structure)
	return mkString(st[1].([]value))
}

func extBuilderWriteString(fr *frame, args []value) value {
	p := args[0].(*value)
	st := (*p).(structure)
	bs := strBytes(args[1])
	buf, _ := st[1].([]value)
	st[1] = append(buf, bs...)
	return tuple{len(bs), iface{}}
}

// ---- atomics

func extAtomicLoad(fr *frame, args []value) value {
	p := args[0].(*value)
	if p == nil {
		fr.i.nilDeref()
	}
	return *p
}

func extAtomicStore(fr *frame, args []value) value {
	p := args[0].(*value)
	if p == nil {
		fr.i.nilDeref()
	}
	*p = args[1]
	return nil
}

func extAtomicAdd(fr *frame, args []value) value {
	p := args[0].(*value)
	if p == nil {
		fr.i.nilDeref()
	}
	t := fr.fn.Signature.Params().At(1).Type()
	var nv value
	if isSym(*p) || isSym(args[1]) {
		nv = fr.i.symBinop(tokenADD, t, t, *p, args[1])
	} else {
		nv = binop(tokenADD, t, *p, args[1])
	}
	*p = nv
	return nv
}

func extAtomicSwap(fr *frame, args []value) value {
	p := args[0].(*value)
	old := *p
	*p = args[1]
	return old
}

func extAtomicCAS(fr *frame, args []value) value {
	p := args[0].(*value)
	if p == nil {
		fr.i.nilDeref()
	}
	t := fr.fn.Signature.Params().At(1).Type()
	if fr.i.truth(fr.i.eqv(t, *p, args[1])) {
		*p = args[2]
		return true
	}
	return false
}

// atomic.Value: struct{ v any }
func extAtomicValueLoad(fr *frame, args []value) value {
	p := args[0].(*value)
	return (*p).(structure)[0]
}

func extAtomicValueStore(fr *frame, args []value) value {
	p := args[0].(*value)
	(*p).(structure)[0] = args[1]
	return nil
}

// atomic.Pointer[T]: struct{ _ [0]*T; _ noCopy; v unsafe.Pointer }; the cell
// holds the *value directly.
func atomicPtrCell(fr *frame, args []value) *value {
	p := args[0].(*value)
	if p == nil {
		fr.i.nilDeref()
	}
	st := (*p).(structure)
	return &st[len(st)-1]
}

func ptrOrNil(v value) value {
	if pv, ok := v.(*value); ok {
		return pv
	}
	return (*value)(nil)
}

func extAtomicPtrLoad(fr *frame, args []value) value {
	return ptrOrNil(*atomicPtrCell(fr, args))
}

func extAtomicPtrStore(fr *frame, args []value) value {
	*atomicPtrCell(fr, args) = args[1]
	return nil
}

func extAtomicPtrSwap(fr *frame, args []value) value {
	c := atomicPtrCell(fr, args)
	old := ptrOrNil(*c)
	*c = args[1]
	return old
}

func extAtomicPtrCAS(fr *frame, args []value) value {
	c := atomicPtrCell(fr, args)
	if ptrOrNil(*c).(*value) == args[1].(*value) {
		*c = args[2]
		return true
	}
	return false
}

// sync.Pool: struct{ noCopy; local; localSize; victim; victimSize; New func() any }
func extPoolGet(fr *frame, args []value) value {
	p := args[0].(*value)
	st := (*p).(structure)
	nf := st[len(st)-1]
	if isNilRef(nf) {
		return iface{}
	}
	return call(fr.i, fr, 0, nf, nil)
}

// ---- context

// context.WithTimeout goes to the harness function vpWithTimeout when there is one (request
// timeouts as symbolic inputs, see zz_vp_api.go); the harness's own fallback vpPlainTimeout, and any
// program without that function, get a context that never expires.
func extContextWithTimeout(fr *frame, args []value) value {
	if fr.caller != nil && fr.caller.fn != nil && fr.caller.fn.Name() == "vpPlainTimeout" {
		return extContextWith(fr, args)
	}
	if fn := fr.i.mainPkg.Func("vpWithTimeout"); fn != nil {
		return call(fr.i, fr, 0, fn, args)
	}
	return extContextWith(fr, args)
}

func extContextWith(fr *frame, args []value) value {
	cancel := nativeFn{name: "context.cancel", fn: noop}
	return tuple{args[0], cancel}
}

// ---- math min/max on possibly symbolic floats

func extMathMin(fr *frame, args []value) value {
	if isSym(args[0]) || isSym(args[1]) {
		i := fr.i
		t := fr.fn.Signature.Params().At(0).Type()
		c := i.symBinop(tokenLSS, t, t, args[0], args[1])
		switch c := c.(type) {
		case bool:
			if c {
				return args[0]
			}
			return args[1]
		case *Term:
			return i.ts.Ite(c, i.toTerm(args[0]), i.toTerm(args[1]))
		}
	}
	return math.Min(args[0].(float64), args[1].(float64))
}

func extMathMax(fr *frame, args []value) value {
	if isSym(args[0]) || isSym(args[1]) {
		i := fr.i
		t := fr.fn.Signature.Params().At(0).Type()
		c := i.symBinop(tokenGTR, t, t, args[0], args[1])
		switch c := c.(type) {
		case bool:
			if c {
				return args[0]
			}
			return args[1]
		case *Term:
			return i.ts.Ite(c, i.toTerm(args[0]), i.toTerm(args[1]))
		}
	}
	return math.Max(args[0].(float64), args[1].(float64))
}

// ---- timers: never fire

// time.NewTicker panics on a non-positive interval, as the real one does (the ticker itself never
// fires in the engine).
func extNewTicker(fr *frame, args []value) value {
	i := fr.i
	switch d := args[0].(type) {
	case *Term:
		var nonPos *Term
		if d.sort.K == kBV {
			nonPos = i.ts.BVCmp("bvsle", d, i.ts.BV(d.sort.W, 0))
		} else if d.sort.K == kInt {
			nonPos = i.ts.ArithCmp("<=", d, i.ts.IntC(0))
		}
		if nonPos != nil && i.branch(nonPos) {
			i.raise("non-positive interval for NewTicker")
		}
	default:
		if asInt64(args[0]) <= 0 {
			i.raise("non-positive interval for NewTicker")
		}
	}
	return extNewTimer(fr, args)
}

func extNewTimer(fr *frame, args []value) value {
	v := zero(mustDeref(fr.fn.Signature.Results().At(0).Type()))
	return &v
}

var _ = unsafe.Pointer(nil)
var _ = os.Stderr
var _ *ssa.Function
