package symgo

// Path exploration by re-execution with decision prefixes.

import (
	"fmt"
	"go/types"
	"math"
	"sort"
	"strings"
	"sync"
	"time"
)

func float64frombits(b uint64) float64 { return math.Float64frombits(b) }

// A decision is either a branch direction or a picked concrete value.
type decision struct {
	Taken bool
	Val   uint64
	Pick  bool
}

// engineAbort ends the current path; it is never visible to target code.
type engineAbort struct {
	kind string // done, infeasible, violation, unsupported, budget, blocked, panic, exit
	msg  string
}

func (e *engineAbort) Error() string { return e.kind + ": " + e.msg }

type drawRec struct {
	Name string // unique: base#occurrence
	Term *Term
}

type obsRec struct {
	Name string
	Val  value
	Typ  types.Type
}

// Violation is a failed assertion with a model.
type Violation struct {
	Harness  string
	AssertID string
	Msg      string
	Model    map[string]string // draw name -> literal
	Tape     map[string]uint64
	Decs     []decision
	Known    string // non-empty if inside a listed known-finding region
	Observed []string
	Panic    bool
	Trace    []string
}

// PathResult summarises one explored path.
type PathResult struct {
	End       string
	Msg       string
	Decisions int
	Steps     int64
	Reached   []string
	Asserts   int
	Tape      map[string]uint64 // witness inputs for this path (if sampled)
	Observed  []string
	AssertLog []string // id=verdict in order
}

// HarnessConfig carries per-harness bounds.
type HarnessConfig struct {
	MaxDecisions        int
	MaxSteps            int64
	MaxPaths            int
	ConcretizeK         int
	SolverMs            int
	Workers             int
	Tier                int
	Seed                int64
	Known               map[string]bool // listed known-finding ids
	SampleEvery         int             // take a witness tape for every n-th completed path
	FloatMode           string          // "fp" or "real"
	StopAtFirst         bool
	StopAfterViolations int   // per worker; 0 = explore everything
	MaxAlloc            int64 // allocation obligation bound (elements); 0 = off
	AllocCut            bool  // continue past a symbolic-size allocation with one representative size
}

// HarnessReport aggregates exploration of one harness function.
type HarnessReport struct {
	Name           string
	Paths          int
	Ends           map[string]int
	Decisions      int
	SolverQueries  int
	SolverSat      int
	SolverUnsat    int
	SolverUnknown  int
	SolverTime     time.Duration
	ModelTime      time.Duration
	Obligations    int
	Discharged     int
	Violations     []*Violation
	KnownHits      map[string]*Violation
	Reached        map[string]int
	Inconclusive   []string
	Witnesses      []*PathResult
	Funcs          map[string]int64 // function -> instructions executed
	Steps          int64
	Wall           time.Duration
	BoundsNotes    []string
	MaxPathsHit    bool
	AssertsByID    map[string]int
	PendingByAssrt map[string]int
}

// pathCtx is the per-path mutable state hung off the interpreter.
type pathCtx struct {
	prefix    []decision
	decs      []decision
	pc        []*Term
	asserted  int // how many of pc are asserted in the solver
	pushed    bool
	drawCount map[string]int
	draws     []drawRec
	reached   map[string]bool
	reachOrd  []string
	observes  []obsRec
	known     []knownRegion
	steps     int64
	asserts   int
	assertLog []string
	clock     *Term
	clockN    int
	notes     []string
	trace     []string
	fs        map[string]value // scratch for natives
	model     Model            // an assignment known to satisfy pc (nil = none cached)
	modelMemo map[int]*Term
	blind     int // solver-decided branches since the last cached model
	pending   []pendingAssert
	knownHit  bool
}

type pendingAssert struct {
	c   *Term
	id  string
	msg string
}

type knownRegion struct {
	id   string
	cond value // bool or *Term
}

func (i *interpreter) newPath(prefix []decision) {
	i.path = &pathCtx{prefix: prefix, drawCount: map[string]int{}, reached: map[string]bool{}, fs: map[string]value{}}
}

func (i *interpreter) replaying() bool { return len(i.path.decs) < len(i.path.prefix) }

func (i *interpreter) abort(kind, format string, args ...interface{}) {
	panic(&engineAbort{kind: kind, msg: fmt.Sprintf(format, args...)})
}

// syncSolver makes sure the whole path condition is asserted in the solver.
//
// The solver keeps one push level per path-condition element; consecutive
// paths share their common prefix (depth-first order makes it long), so only
// the differing suffix is popped and re-asserted.
func (i *interpreter) syncSolver() {
	p := i.path
	if !p.pushed {
		// first use on this path: find the prefix shared with what the solver already holds
		k := 0
		for k < len(i.solverPC) && k < len(p.pc) && i.solverPC[k] == p.pc[k] {
			k++
		}
		i.solver.PopTo(k)
		i.solverPC = i.solverPC[:k]
		p.asserted = k
		p.pushed = true
	}
	for p.asserted < len(p.pc) {
		i.solver.Push()
		i.solver.Assert(p.pc[p.asserted])
		i.solverPC = append(i.solverPC, p.pc[p.asserted])
		p.asserted++
	}
}

func (i *interpreter) addPC(c *Term) {
	if c.IsConst() {
		return
	}
	p := i.path
	p.pc = append(p.pc, c)
	if p.model != nil {
		if v := i.ts.Eval(c, p.model, p.modelMemo); !(v.IsConst() && v.cv == 1) {
			p.model, p.modelMemo = nil, nil
		}
	}
}

// underModel evaluates c under the cached model: +1 true, -1 false, 0 unknown/no model.
func (i *interpreter) underModel(c *Term) int {
	p := i.path
	if p.model == nil {
		return 0
	}
	v := i.ts.Eval(c, p.model, p.modelMemo)
	if v.IsConst() && v.sort == sBool {
		if v.cv == 1 {
			return 1
		}
		return -1
	}
	return 0
}

// fetchModel caches the solver's current model; call right after a sat check
// whose scope equals pc plus extra (extra is about to be added to pc).
func (i *interpreter) fetchModel() {
	p := i.path
	vars := make([]*Term, 0, len(p.draws))
	for _, d := range p.draws {
		vars = append(vars, d.Term)
	}
	m, err := i.solver.GetModel(vars)
	if err != nil {
		p.model, p.modelMemo = nil, nil
		return
	}
	p.model, p.modelMemo = m, map[int]*Term{}
}

// feasibleFetch is feasible() that also caches the model when the answer is sat.
func (i *interpreter) feasibleFetch(c *Term) bool {
	if c.IsConst() {
		return c.cv == 1
	}
	i.syncSolver()
	i.queries++
	i.solver.Push()
	i.solver.Assert(c)
	r := i.solver.Check()
	i.path.blind++
	if r == "sat" && i.path.blind > 16 {
		// get-value costs as much as ~30 feasibility queries: only worth it on paths
		// that keep branching without a model
		i.fetchModel()
		i.path.blind = 0
	}
	i.solver.Pop()
	if r == "unknown" {
		i.noteInconclusive("solver unknown on branch feasibility: " + i.solver.lastErr)
		return true
	}
	return r == "sat"
}

func (i *interpreter) noteInconclusive(msg string) {
	i.inconclusive = append(i.inconclusive, msg)
}

// feasible reports whether PC ∧ c is satisfiable ("unknown" counts as feasible and is recorded).
func (i *interpreter) feasible(c *Term) bool {
	if c.IsConst() {
		return c.cv == 1
	}
	i.syncSolver()
	i.queries++
	r := i.solver.CheckWith(c)
	if r == "unknown" {
		i.noteInconclusive("solver unknown on branch feasibility: " + i.solver.lastErr)
		return true
	}
	return r == "sat"
}

// branch decides a symbolic condition, forking the exploration if both sides are feasible.
func (i *interpreter) branch(c *Term) bool {
	if c.sort != sBool {
		panic("branch on non-bool term")
	}
	if c.IsConst() {
		return c.cv == 1
	}
	p := i.path
	if len(p.decs) < len(p.prefix) {
		d := p.prefix[len(p.decs)]
		if d.Pick {
			i.abort("engine", "decision replay mismatch: expected branch, prefix has pick (at %d)", len(p.decs))
		}
		p.decs = append(p.decs, d)
		if d.Taken {
			i.addPC(c)
		} else {
			i.addPC(i.ts.Not(c))
		}
		return d.Taken
	}
	if len(p.decs) >= i.cfg.MaxDecisions {
		i.abort("budget", "more than %d symbolic decisions on one path (unwinding bound)", i.cfg.MaxDecisions)
	}
	i.flushAsserts()
	take := func(side bool, otherFeasible bool) bool {
		if otherFeasible {
			alt := append(append([]decision(nil), p.decs...), decision{Taken: !side})
			i.ex.push(alt)
		}
		p.decs = append(p.decs, decision{Taken: side})
		if side {
			i.addPC(c)
		} else {
			i.addPC(i.ts.Not(c))
		}
		return side
	}
	// follow the side the cached model already satisfies: the model stays valid
	// along the path and only the other side needs a query
	switch i.underModel(c) {
	case 1:
		return take(true, i.feasible(i.ts.Not(c)))
	case -1:
		return take(false, i.feasible(c))
	}
	if i.feasibleFetch(c) {
		return take(true, i.feasible(i.ts.Not(c)))
	}
	return take(false, false) // PC is feasible, so the other side must be
}

// preferNoFork reports whether c is feasible, recording the answer as a
// decision (so replays agree) without exploring the other side.
func (i *interpreter) preferNoFork(c *Term) bool {
	p := i.path
	if len(p.decs) < len(p.prefix) {
		d := p.prefix[len(p.decs)]
		p.decs = append(p.decs, d)
		return d.Taken
	}
	i.flushAsserts()
	ok := i.underModel(c) == 1 || i.feasible(c)
	p.decs = append(p.decs, decision{Taken: ok})
	return ok
}

// pick returns a concrete value that t can take under the path condition.
func (i *interpreter) pick(t *Term) uint64 {
	p := i.path
	if len(p.decs) < len(p.prefix) {
		d := p.prefix[len(p.decs)]
		if !d.Pick {
			i.abort("engine", "decision replay mismatch: expected pick, prefix has branch (at %d)", len(p.decs))
		}
		p.decs = append(p.decs, d)
		return d.Val
	}
	i.flushAsserts()
	if p.model != nil {
		if c := i.ts.Eval(t, p.model, p.modelMemo); c.IsConst() {
			p.decs = append(p.decs, decision{Pick: true, Val: c.cv})
			return c.cv
		}
	}
	i.syncSolver()
	i.queries++
	i.solver.Push()
	i.solver.define(t)
	r := i.solver.Check()
	if r == "sat" {
		i.fetchModel()
	}
	var v uint64
	if r == "sat" {
		// fetch the value of t via a fresh variable equal to it
		m, err := i.evalInSolver(t)
		if err != nil {
			i.solver.Pop()
			i.abort("unsupported", "cannot read model value: %v", err)
		}
		v = m
	} else {
		i.solver.Pop()
		if r == "unknown" {
			i.abort("unsupported", "solver unknown while concretising a value")
		}
		i.abort("infeasible", "path condition unsatisfiable at pick")
	}
	i.solver.Pop()
	p.decs = append(p.decs, decision{Pick: true, Val: v})
	return v
}

// pickMin returns the smallest (unsigned) value t can take under the path condition: a
// representative that does not depend on which model a solver happens to return, so that two
// solvers explore the same paths. Binary search over bvule bounds, one query per bit at most.
func (i *interpreter) pickMin(t *Term) uint64 {
	p := i.path
	if len(p.decs) < len(p.prefix) {
		return i.pick(t) // replaying a recorded decision
	}
	i.flushAsserts()
	w := t.sort.W
	var lo, hi uint64 = 0, ^uint64(0)
	if w < 64 {
		hi = (uint64(1) << w) - 1
	}
	if !i.feasible(i.ts.BVCmp("bvule", t, i.ts.BV(w, hi))) {
		i.abort("infeasible", "path condition unsatisfiable at pick")
	}
	for lo < hi {
		mid := lo + (hi-lo)/2
		c := i.ts.And(i.ts.BVCmp("bvule", i.ts.BV(w, lo), t), i.ts.BVCmp("bvule", t, i.ts.BV(w, mid)))
		if i.feasible(c) {
			hi = mid
		} else {
			lo = mid + 1
		}
	}
	p.decs = append(p.decs, decision{Pick: true, Val: lo})
	return lo
}

func (i *interpreter) evalInSolver(t *Term) (uint64, error) {
	s := i.solver
	t0 := time.Now()
	defer func() { s.Stats.ModelTime += time.Since(t0) }()
	s.send("(get-value (" + t.ref() + "))")
	s.in.Flush()
	txt, err := s.readSexp()
	if err != nil {
		return 0, err
	}
	if strings.HasPrefix(txt, "(error") {
		return 0, fmt.Errorf("%s", txt)
	}
	pos := 0
	root := parseSx(txt, &pos)
	if root == nil || len(root.list) != 1 || len(root.list[0].list) != 2 {
		return 0, fmt.Errorf("bad get-value reply %q", txt)
	}
	c, err := s.constFromSx(root.list[0].list[1], t.sort)
	if err != nil {
		return 0, err
	}
	return c.cv, nil
}

// concretize forks over the feasible values of t (at most K of them).
func (i *interpreter) concretize(t *Term, what string) uint64 {
	if t.IsConst() {
		return t.cv
	}
	for n := 0; n < i.cfg.ConcretizeK; n++ {
		v := i.pick(t)
		if i.branch(i.ts.Eq(t, i.ts.BV(t.sort.W, v))) {
			return v
		}
	}
	i.abort("budget", "more than %d feasible values while concretising %s", i.cfg.ConcretizeK, what)
	return 0
}

// ---- draws

func (i *interpreter) draw(base string, s Sort) *Term {
	p := i.path
	n := p.drawCount[base]
	p.drawCount[base] = n + 1
	name := fmt.Sprintf("%s!%d", sanitizeName(base), n)
	t := i.ts.Var(name, s)
	p.draws = append(p.draws, drawRec{Name: name, Term: t})
	return t
}

func sanitizeName(s string) string {
	var sb strings.Builder
	for _, r := range s {
		if (r >= 'a' && r <= 'z') || (r >= 'A' && r <= 'Z') || (r >= '0' && r <= '9') || r == '_' || r == '.' {
			sb.WriteRune(r)
		} else {
			sb.WriteByte('_')
		}
	}
	if sb.Len() == 0 {
		return "v"
	}
	return sb.String()
}

// ---- assertions

func (i *interpreter) boolTerm(v value) *Term {
	switch v := v.(type) {
	case bool:
		return i.ts.Bool(v)
	case *Term:
		return v
	}
	panic(fmt.Sprintf("expected bool, got %T", v))
}

func (i *interpreter) activeKnown() (*Term, string) {
	k := i.ts.Bool(false)
	id := ""
	for _, r := range i.path.known {
		if !i.cfg.Known[r.id] {
			continue
		}
		k = i.ts.Or(k, i.boolTerm(r.cond))
		if id == "" {
			id = r.id
		} else if !strings.Contains(id, r.id) {
			id += "," + r.id
		}
	}
	return k, id
}

func (i *interpreter) doAssert(cond value, id string, isPanic bool, msg string) {
	p := i.path
	c := i.boolTerm(cond)
	if i.replaying() {
		// already decided by the parent path at the same path condition
		i.addPC(c)
		if c.IsConst() && c.cv == 0 {
			i.abort("infeasible", "assertion %s already reported on parent path", id)
		}
		return
	}
	p.asserts++
	i.rep.obligations++
	i.rep.assertIDs[id]++
	if c.IsConst() && c.cv == 1 {
		i.rep.discharged++
		return
	}
	if !isPanic && !i.noLazy && len(p.known) == 0 && !(c.IsConst() && c.cv == 0) {
		// decided together with the following assertions at the next branch / path end
		p.pending = append(p.pending, pendingAssert{c, id, msg})
		return
	}
	i.flushAsserts()
	i.assertNow(c, id, isPanic, msg)
}

// flushAsserts decides all pending assertions with one query:
// PC ∧ ¬(c1 ∧ ... ∧ cn) unsat  <=>  every ck holds under PC ∧ c1..c(k-1).
func (i *interpreter) flushAsserts() {
	p := i.path
	if len(p.pending) == 0 {
		return
	}
	pend := p.pending
	p.pending = nil
	conj := i.ts.Bool(true)
	for _, a := range pend {
		conj = i.ts.And(conj, a.c)
	}
	if i.underModel(conj) != -1 {
		neg := i.ts.Not(conj)
		i.syncSolver()
		i.queries++
		r := i.solver.CheckWith(neg)
		if r == "unsat" {
			i.rep.discharged += len(pend)
			for _, a := range pend {
				i.addPC(a.c)
			}
			return
		}
	}
	// something fails (or unknown): decide one by one to name the assertion
	for _, a := range pend {
		i.assertNow(a.c, a.id, false, a.msg)
	}
}

func (i *interpreter) assertNow(c *Term, id string, isPanic bool, msg string) {
	if c.IsConst() && c.cv == 1 {
		i.rep.discharged++
		return
	}
	known, kid := i.activeKnown()
	neg := i.ts.Not(c)
	// (1) violation outside every listed known region
	goal := i.ts.And(neg, i.ts.Not(known))
	res := "unsat"
	if !goal.IsConst() || goal.cv == 1 {
		i.syncSolver()
		i.queries++
		i.solver.Push()
		if !goal.IsConst() {
			i.solver.Assert(goal)
		}
		res = i.solver.Check()
		if res == "sat" {
			v := i.buildViolation(id, msg, isPanic)
			i.solver.Pop()
			i.rep.addViolation(v)
			i.abort("violation", "assertion %s violated", id)
		}
		i.solver.Pop()
	}
	if res == "unknown" {
		i.noteInconclusive(fmt.Sprintf("solver unknown on assertion %s: %s", id, i.solver.lastErr))
	} else {
		i.rep.discharged++
	}
	// (2) known-finding region still violated?
	if kid != "" {
		g2 := i.ts.And(neg, known)
		if !g2.IsConst() || g2.cv == 1 {
			i.syncSolver()
			i.queries++
			i.solver.Push()
			if !g2.IsConst() {
				i.solver.Assert(g2)
			}
			r2 := i.solver.Check()
			if r2 == "sat" {
				v := i.buildViolation(id, msg, isPanic)
				v.Known = kid
				i.rep.addKnown(kid, v)
			}
			i.solver.Pop()
		}
		// continue where the assertion holds; where it fails on every input of this path (a listed
		// finding), continue without assuming it so that later assertions are still decided
		if (c.IsConst() && c.cv == 0) || !i.feasible(c) {
			i.path.knownHit = true
			return
		}
	}
	i.addPC(c)
}

// buildViolation must be called right after a sat Check in the current scope.
func (i *interpreter) buildViolation(id, msg string, isPanic bool) *Violation {
	p := i.path
	vars := make([]*Term, 0, len(p.draws))
	for _, d := range p.draws {
		vars = append(vars, d.Term)
	}
	for _, v := range i.ts.vars {
		found := false
		for _, d := range p.draws {
			if d.Term == v {
				found = true
				break
			}
		}
		if !found {
			vars = append(vars, v)
		}
	}
	m, err := i.solver.GetModel(vars)
	if err != nil {
		i.noteInconclusive("cannot read model: " + err.Error())
		m = Model{}
	}
	v := &Violation{Harness: i.rep.name, AssertID: id, Msg: msg, Panic: isPanic,
		Model: map[string]string{}, Tape: map[string]uint64{}}
	for _, d := range p.draws {
		c := m[d.Name]
		if c == nil {
			c = i.ts.zeroOf(d.Term.sort)
		}
		v.Model[d.Name] = c.ref()
		v.Tape[d.Name] = tapeVal(c)
	}
	memo := map[int]*Term{}
	for _, o := range p.observes {
		v.Observed = append(v.Observed, o.Name+"="+i.renderUnder(o.Val, o.Typ, m, memo))
	}
	v.Decs = append([]decision(nil), p.decs...)
	v.Trace = append([]string(nil), p.trace...)
	return v
}

func tapeVal(c *Term) uint64 {
	switch c.sort.K {
	case kBV, kBool:
		return c.cv
	case kFP:
		return math.Float64bits(c.fv)
	case kInt:
		if c.big.IsInt() {
			return uint64(c.big.Num().Int64())
		}
	case kReal:
		f, _ := c.big.Float64()
		return math.Float64bits(f)
	}
	return 0
}

// renderUnder prints a (possibly symbolic) value with model values substituted,
// in the format the native vpObserve uses.
func (i *interpreter) renderUnder(v value, t types.Type, m Model, memo map[int]*Term) string {
	switch v := v.(type) {
	case *Term:
		c := i.ts.Eval(v, m, memo)
		if c.IsConst() && t != nil {
			if _, ok := t.Underlying().(*types.Basic); ok && (c.sort.K == kBV || c.sort.K == kBool) {
				return fmt.Sprintf("%v", fromConst(c, t))
			}
		}
		if c.IsConst() {
			switch c.sort.K {
			case kBool:
				return fmt.Sprint(c.cv == 1)
			case kBV:
				return fmt.Sprint(c.cv)
			case kFP:
				return fmt.Sprint(c.fv)
			}
		}
		return c.String()
	case symString:
		var sb strings.Builder
		for _, b := range v {
			switch b := b.(type) {
			case byte:
				sb.WriteByte(b)
			case *Term:
				c := i.ts.Eval(b, m, memo)
				if c.IsConst() {
					sb.WriteByte(byte(c.cv))
				} else {
					sb.WriteByte('?')
				}
			}
		}
		return fmt.Sprintf("%q", sb.String())
	case []value:
		var et types.Type
		if t != nil {
			if st, ok := t.Underlying().(*types.Slice); ok {
				et = st.Elem()
			}
		}
		parts := make([]string, len(v))
		for k, e := range v {
			parts[k] = i.renderUnder(e, et, m, memo)
		}
		return "[" + strings.Join(parts, " ") + "]"
	case string:
		return fmt.Sprintf("%q", v)
	case iface:
		if v.t == nil {
			return "<nil>"
		}
		return i.renderUnder(v.v, v.t, m, memo)
	case bool, int, int8, int16, int32, int64, uint, uint8, uint16, uint32, uint64, uintptr, float64:
		return fmt.Sprintf("%v", v)
	}
	return toString(v)
}

// witness extracts a tape for the current (complete) path.
func (i *interpreter) witness() (map[string]uint64, []string) {
	p := i.path
	i.flushAsserts()
	if len(p.draws) == 0 {
		var obs []string
		for _, o := range p.observes {
			obs = append(obs, o.Name+"="+i.renderUnder(o.Val, o.Typ, Model{}, map[int]*Term{}))
		}
		return map[string]uint64{}, obs
	}
	m := p.model
	if m == nil {
		i.syncSolver()
		i.queries++
		r := i.solver.Check()
		if r != "sat" {
			return nil, nil
		}
		vars := make([]*Term, 0, len(p.draws))
		for _, d := range p.draws {
			vars = append(vars, d.Term)
		}
		var err error
		m, err = i.solver.GetModel(vars)
		if err != nil {
			return nil, nil
		}
	}
	tape := map[string]uint64{}
	for _, d := range p.draws {
		c := m[d.Name]
		if c == nil {
			c = i.ts.zeroOf(d.Term.sort)
			m[d.Name] = c
		}
		tape[d.Name] = tapeVal(c)
	}
	var obs []string
	memo := map[int]*Term{}
	for _, o := range p.observes {
		obs = append(obs, o.Name+"="+i.renderUnder(o.Val, o.Typ, m, memo))
	}
	return tape, obs
}

// ---- shared report (guarded by mutex)

type reportAcc struct {
	mu          sync.Mutex
	name        string
	obligations int
	discharged  int
	violations  []*Violation
	known       map[string]*Violation
	assertIDs   map[string]int
}

func (r *reportAcc) addViolation(v *Violation) {
	r.violations = append(r.violations, v)
}

func (r *reportAcc) addKnown(id string, v *Violation) {
	if r.known == nil {
		r.known = map[string]*Violation{}
	}
	if _, ok := r.known[id]; !ok {
		r.known[id] = v
	}
}

// ---- explorer

type explorer struct {
	mu       sync.Mutex
	work     [][]decision
	inflight int
	cond     *sync.Cond
	stop     bool
}

func (e *explorer) push(p []decision) {
	e.mu.Lock()
	e.work = append(e.work, p)
	e.mu.Unlock()
	e.cond.Signal()
}

func (e *explorer) pop() ([]decision, bool) {
	e.mu.Lock()
	defer e.mu.Unlock()
	for {
		if e.stop {
			return nil, false
		}
		if n := len(e.work); n > 0 {
			p := e.work[n-1]
			e.work = e.work[:n-1]
			e.inflight++
			return p, true
		}
		if e.inflight == 0 {
			e.cond.Broadcast()
			return nil, false
		}
		e.cond.Wait()
	}
}

func (e *explorer) done() {
	e.mu.Lock()
	e.inflight--
	if e.inflight == 0 && len(e.work) == 0 {
		e.cond.Broadcast()
	}
	e.mu.Unlock()
}

func sortedKeys(m map[string]bool) []string {
	ks := make([]string, 0, len(m))
	for k := range m {
		ks = append(ks, k)
	}
	sort.Strings(ks)
	return ks
}
