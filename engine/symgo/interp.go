// Copyright 2013 The Go Authors. All rights reserved.
// Use of this source code is governed by a BSD-style
// license that can be found in the LICENSE file.

// Package symgo is a bounded symbolic executor for Go programs in SSA form.
// It started as a copy of golang.org/x/tools/go/ssa/interp (v0.29.0) and keeps
// its boxed value representation; scalars may additionally be SMT terms, `If`
// on a symbolic condition forks the exploration, and goroutines run eagerly.
package symgo

import (
	"fmt"
	"go/token"
	"go/types"
	"os"
	"runtime"
	"slices"
	"strings"

	"golang.org/x/tools/go/ssa"
)

type continuation int

const (
	kNext continuation = iota
	kReturn
	kJump
)

type methodSet map[string]*ssa.Function

// interpreter is the state of one worker.
type interpreter struct {
	prog               *ssa.Program
	globals            map[*ssa.Global]*value
	runtimeErrorString types.Type
	sizes              types.Sizes

	// symbolic state
	ts           *TermStore
	solver       *Solver
	cfg          *HarnessConfig
	ex           *explorer
	path         *pathCtx
	rep          *reportAcc
	queries      int
	inconclusive []string
	funcSteps    map[*ssa.Function]int64
	totalSteps   int64
	verbose      bool
	tracing      bool
	inInit       bool
	mainPkg      *ssa.Package
	goDepth      int
	extCache     map[*ssa.Function]externalFn
	uniqueCells  map[string]*value // unique.Make handles, see extUniqueMake
	sampleCtr    int
	noLazy       bool
	cutNotes     map[string]bool
	curFn        string
	solverPC     []*Term // path-condition elements currently asserted, one push level each
}

type deferred struct {
	fn    value
	args  []value
	instr *ssa.Defer
	tail  *deferred
}

type frame struct {
	i                *interpreter
	caller           *frame
	fn               *ssa.Function
	block, prevBlock *ssa.BasicBlock
	env              map[ssa.Value]value // dynamic values of SSA variables
	locals           []value
	defers           *deferred
	result           value
	panicking        bool
	panic            interface{}
	phitemps         []value // temporaries for parallel phi assignment
	cur              ssa.Instruction
}

func (fr *frame) get(key ssa.Value) value {
	switch key := key.(type) {
	case nil:
		return nil
	case *ssa.Function, *ssa.Builtin:
		return key
	case *ssa.Const:
		return constValue(key)
	case *ssa.Global:
		if r, ok := fr.i.globals[key]; ok {
			return r
		}
	}
	if r, ok := fr.env[key]; ok {
		return r
	}
	panic(fmt.Sprintf("get: no value for %T: %v", key, key.Name()))
}

// runDefer runs a deferred call d.
// It always returns normally, but may set or clear fr.panic.
func (fr *frame) runDefer(d *deferred) {
	var ok bool
	defer func() {
		if !ok {
			r := recover()
			if ea, isAbort := r.(*engineAbort); isAbort {
				panic(ea)
			}
			// Deferred call created a new state of panic.
			fr.panicking = true
			fr.panic = r
		}
	}()
	call(fr.i, fr, d.instr.Pos(), d.fn, d.args)
	ok = true
}

func (fr *frame) runDefers() {
	for d := fr.defers; d != nil; d = d.tail {
		fr.runDefer(d)
	}
	fr.defers = nil
	if fr.panicking {
		panic(fr.panic) // new panic, or still panicking
	}
}

func lookupMethod(i *interpreter, typ types.Type, meth *types.Func) *ssa.Function {
	return i.prog.LookupMethod(typ, meth.Pkg(), meth.Name())
}

func (i *interpreter) nilDeref() {
	i.raise("invalid memory address or nil pointer dereference")
}

// indexOf resolves an index against a length, forking on symbolic indices and
// raising the Go run-time panic when out of range.
func (i *interpreter) indexOf(idx value, n int, t types.Type) int64 {
	if it, ok := idx.(*Term); ok {
		w := it.sort.W
		_, signed, _ := basicWidth(t)
		var inb *Term
		// the length may not be representable in the index type (a uint8 index into a
		// [256]T table): the upper test is then vacuously true, not "index < 0"
		if signed {
			inb = i.ts.BVCmp("bvsle", i.ts.BV(w, 0), it)
			if w >= 64 || uint64(n) <= (uint64(1)<<(uint(w)-1))-1 {
				inb = i.ts.And(inb, i.ts.BVCmp("bvslt", it, i.ts.BV(w, uint64(n))))
			}
		} else if w >= 64 || uint64(n) <= (uint64(1)<<uint(w))-1 {
			inb = i.ts.BVCmp("bvult", it, i.ts.BV(w, uint64(n)))
		} else {
			inb = i.ts.Bool(true)
		}
		if !i.branch(inb) {
			i.raise(fmt.Sprintf("index out of range [symbolic] with length %d", n))
		}
		return int64(i.concretize(it, "index"))
	}
	k := asInt64(idx)
	if k < 0 || k >= int64(n) {
		i.raise(fmt.Sprintf("index out of range [%d] with length %d", k, n))
	}
	return k
}

func visitInstr(fr *frame, instr ssa.Instruction) continuation {
	i := fr.i
	switch instr := instr.(type) {
	case *ssa.DebugRef:
		// no-op

	case *ssa.UnOp:
		fr.env[instr] = i.unop(instr, fr.get(instr.X))

	case *ssa.BinOp:
		x, y := fr.get(instr.X), fr.get(instr.Y)
		switch {
		case instr.Op == token.EQL:
			fr.env[instr] = i.eqnilv(instr.X.Type(), x, y)
		case instr.Op == token.NEQ:
			fr.env[instr] = i.notv(i.eqnilv(instr.X.Type(), x, y))
		case isSym(x) || isSym(y):
			fr.env[instr] = i.symBinop(instr.Op, instr.X.Type(), instr.Y.Type(), x, y)
		default:
			fr.env[instr] = i.concBinop(instr.Op, instr.X.Type(), x, y)
		}

	case *ssa.Call:
		fn, args := prepareCall(fr, &instr.Call)
		fr.env[instr] = call(fr.i, fr, instr.Pos(), fn, args)

	case *ssa.ChangeInterface:
		fr.env[instr] = fr.get(instr.X)

	case *ssa.ChangeType:
		fr.env[instr] = fr.get(instr.X) // (can't fail)

	case *ssa.Convert:
		fr.env[instr] = i.conv(instr.Type(), instr.X.Type(), fr.get(instr.X))

	case *ssa.SliceToArrayPointer:
		fr.env[instr] = sliceToArrayPointer(instr.Type(), instr.X.Type(), fr.get(instr.X))

	case *ssa.MakeInterface:
		fr.env[instr] = iface{t: instr.X.Type(), v: fr.get(instr.X)}

	case *ssa.Extract:
		fr.env[instr] = fr.get(instr.Tuple).(tuple)[instr.Index]

	case *ssa.Slice:
		fr.env[instr] = i.slice(fr.get(instr.X), fr.get(instr.Low), fr.get(instr.High), fr.get(instr.Max))

	case *ssa.Return:
		switch len(instr.Results) {
		case 0:
		case 1:
			fr.result = fr.get(instr.Results[0])
		default:
			var res []value
			for _, r := range instr.Results {
				res = append(res, fr.get(r))
			}
			fr.result = tuple(res)
		}
		fr.block = nil
		return kReturn

	case *ssa.RunDefers:
		fr.runDefers()

	case *ssa.Panic:
		panic(targetPanic{fr.get(instr.X)})

	case *ssa.Send:
		ch := fr.get(instr.Chan).(*channel)
		if !i.chanSend(ch, fr.get(instr.X)) {
			i.abort("blocked", "send on a channel with no ready receiver")
		}

	case *ssa.Store:
		addr := fr.get(instr.Addr).(*value)
		if addr == nil {
			i.nilDeref()
		}
		store(mustDeref(instr.Addr.Type()), addr, fr.get(instr.Val))

	case *ssa.If:
		succ := 1
		if i.truth(fr.get(instr.Cond)) {
			succ = 0
		}
		fr.prevBlock, fr.block = fr.block, fr.block.Succs[succ]
		return kJump

	case *ssa.Jump:
		fr.prevBlock, fr.block = fr.block, fr.block.Succs[0]
		return kJump

	case *ssa.Defer:
		fn, args := prepareCall(fr, &instr.Call)
		defers := &fr.defers
		if into := fr.get(instr.DeferStack); into != nil {
			defers = into.(**deferred)
		}
		*defers = &deferred{
			fn:    fn,
			args:  args,
			instr: instr,
			tail:  *defers,
		}

	case *ssa.Go:
		fn, args := prepareCall(fr, &instr.Call)
		i.spawn(fr, instr.Pos(), fn, args)

	case *ssa.MakeChan:
		n := i.concInt(fr.get(instr.Size), "channel capacity")
		fr.env[instr] = &channel{cap: int(n)}

	case *ssa.Alloc:
		var addr *value
		if instr.Heap {
			// new
			addr = new(value)
			fr.env[instr] = addr
		} else {
			// local
			addr = fr.env[instr].(*value)
		}
		*addr = zero(mustDeref(instr.Type()))

	case *ssa.MakeSlice:
		i.curFn = fr.fn.String()
		ln := i.makeSize(fr.get(instr.Len), "make: len")
		cp := i.makeSize(fr.get(instr.Cap), "make: cap")
		if ln < 0 || cp < ln {
			i.raise("makeslice: len out of range")
		}
		if cp > engineAllocCap {
			i.abort("budget", "allocation of %d elements in %s is beyond what the engine executes", cp, fr.fn)
		}
		slice := make([]value, cp)
		tElt := instr.Type().Underlying().(*types.Slice).Elem()
		z := zero(tElt)
		switch z.(type) {
		case structure, array:
			for k := range slice {
				slice[k] = zero(tElt)
			}
		default:
			for k := range slice {
				slice[k] = z
			}
		}
		fr.env[instr] = slice[:ln]

	case *ssa.MakeMap:
		fr.env[instr] = newOmap(instr.Type().Underlying().(*types.Map).Key())

	case *ssa.Range:
		fr.env[instr] = rangeIter(fr.get(instr.X), instr.X.Type())

	case *ssa.Next:
		fr.env[instr] = fr.get(instr.Iter).(iter).next(i)

	case *ssa.FieldAddr:
		p := fr.get(instr.X).(*value)
		if p == nil {
			i.nilDeref()
		}
		fr.env[instr] = &(*p).(structure)[instr.Field]

	case *ssa.Field:
		fr.env[instr] = fr.get(instr.X).(structure)[instr.Field]

	case *ssa.IndexAddr:
		x := fr.get(instr.X)
		idx := fr.get(instr.Index)
		switch x := x.(type) {
		case []value:
			fr.env[instr] = &x[i.indexOf(idx, len(x), instr.Index.Type())]
		case *value: // *array
			if x == nil {
				i.nilDeref()
			}
			a := (*x).(array)
			fr.env[instr] = &a[i.indexOf(idx, len(a), instr.Index.Type())]
		default:
			panic(fmt.Sprintf("unexpected x type in IndexAddr: %T", x))
		}

	case *ssa.Index:
		x := fr.get(instr.X)
		idx := fr.get(instr.Index)

		switch x := x.(type) {
		case array:
			fr.env[instr] = x[i.indexOf(idx, len(x), instr.Index.Type())]
		case string:
			fr.env[instr] = x[i.indexOf(idx, len(x), instr.Index.Type())]
		case symString:
			fr.env[instr] = x[i.indexOf(idx, len(x), instr.Index.Type())]
		default:
			panic(fmt.Sprintf("unexpected x type in Index: %T", x))
		}

	case *ssa.Lookup:
		x := fr.get(instr.X)
		if isStringVal(x) {
			bs := strBytes(x)
			fr.env[instr] = bs[i.indexOf(fr.get(instr.Index), len(bs), instr.Index.Type())]
		} else {
			fr.env[instr] = i.lookup(instr, x, fr.get(instr.Index))
		}

	case *ssa.MapUpdate:
		m := fr.get(instr.Map)
		key := fr.get(instr.Key)
		v := fr.get(instr.Value)
		switch m := m.(type) {
		case *omap:
			i.mapInsert(m, key, v)
		default:
			panic(fmt.Sprintf("illegal map type: %T", m))
		}

	case *ssa.TypeAssert:
		fr.env[instr] = typeAssert(fr.i, instr, fr.get(instr.X).(iface))

	case *ssa.MakeClosure:
		var bindings []value
		for _, binding := range instr.Bindings {
			bindings = append(bindings, fr.get(binding))
		}
		fr.env[instr] = &closure{instr.Fn.(*ssa.Function), bindings}

	case *ssa.Phi:
		panic("unreachable") // phis are processed at block entry

	case *ssa.Select:
		fr.env[instr] = i.doSelect(fr, instr)

	default:
		panic(fmt.Sprintf("unexpected instruction: %T", instr))
	}

	return kNext
}

// concBinop wraps the concrete binop, turning division by zero into a target panic.
func (i *interpreter) concBinop(op token.Token, t types.Type, x, y value) (res value) {
	if op == token.QUO || op == token.REM {
		if isZeroInt(y) {
			i.raise("integer divide by zero")
		}
	}
	return binop(op, t, x, y)
}

func (i *interpreter) makeSize(v value, what string) int64 {
	if t, ok := v.(*Term); ok {
		if i.cfg != nil && i.cfg.MaxAlloc > 0 {
			// allocation obligation: the size is bounded on every value
			lim := i.ts.BV(t.sort.W, uint64(i.cfg.MaxAlloc))
			okc := i.ts.And(i.ts.BVCmp("bvsle", i.ts.BV(t.sort.W, 0), t), i.ts.BVCmp("bvsle", t, lim))
			i.doAssert(i.unterm(okc), "alloc-bound", false, what+" sized by a symbolic value above the allocation bound")
		}
		if i.cfg != nil && i.cfg.AllocCut {
			// deliberate cut: everything up to this allocation was decided for all sizes; beyond it
			// the path continues with one representative size (a small one if possible)
			v := i.pickMin(t) // the smallest feasible size: the same for every solver
			i.addPC(i.ts.Eq(t, i.ts.BV(t.sort.W, v)))
			i.cutNotes["allocation in "+callerFn(i)+" continued with one representative size"] = true
			return int64(v)
		}
		// A size the code under test leaves unbounded is not enumerated: the region above the
		// engine's allocation cap ends this path as out of budget at once (inconclusive, never a
		// pass), instead of allocating gigabytes for each of the solver's picks; the region below
		// it is explored as usual, preferring small sizes.
		if t.sort.K == kBV {
			if i.branch(i.ts.BVCmp("bvugt", t, i.ts.BV(t.sort.W, engineAllocCap))) {
				i.abort("budget", "%s sized by a symbolic value that can exceed %d elements (unbounded in the code under test?)", what, engineAllocCap)
			}
			i.branch(i.ts.BVCmp("bvule", t, i.ts.BV(t.sort.W, 32))) // split: small sizes are enumerated on their own
		}
		return int64(i.concretize(t, what))
	}
	return asInt64(v)
}

// engineAllocCap: the largest slice the engine allocates (elements).
const engineAllocCap = 1 << 20

func callerFn(i *interpreter) string { return i.curFn }

func (i *interpreter) allocTooBig(n int64, instr ssa.Instruction) {
	i.doAssert(false, "alloc-bound", false, fmt.Sprintf("allocation of %d elements exceeds the declared bound", n))
}

// prepareCall determines the function value and argument values for a
// function call in a Call, Go or Defer instruction, performing
// interface method lookup if needed.
func prepareCall(fr *frame, call *ssa.CallCommon) (fn value, args []value) {
	v := fr.get(call.Value)
	if call.Method == nil {
		// Function call.
		fn = v
	} else {
		// Interface method invocation.
		recv := v.(iface)
		if recv.t == nil {
			fr.i.raise("invalid memory address or nil pointer dereference (method call on nil interface)")
		}
		if f := lookupMethod(fr.i, recv.t, call.Method); f == nil {
			// Unreachable in well-typed programs.
			panic(fmt.Sprintf("method set for dynamic type %v does not contain %s", recv.t, call.Method))
		} else {
			fn = f
		}
		args = append(args, recv.v)
	}
	for _, arg := range call.Args {
		args = append(args, fr.get(arg))
	}
	return
}

// call interprets a call to a function (function, builtin or closure)
// fn with arguments args, returning its result.
func call(i *interpreter, caller *frame, callpos token.Pos, fn value, args []value) value {
	switch fn := fn.(type) {
	case *ssa.Function:
		if fn == nil {
			i.raise("invalid memory address or nil pointer dereference (call of nil func)")
		}
		return callSSA(i, caller, callpos, fn, args, nil)
	case *closure:
		return callSSA(i, caller, callpos, fn.Fn, args, fn.Env)
	case *ssa.Builtin:
		return callBuiltin(caller, callpos, fn, args)
	case nativeFn:
		return fn.fn(caller, args)
	}
	panic(fmt.Sprintf("cannot call %T", fn))
}

func loc(fset *token.FileSet, pos token.Pos) string {
	if pos == token.NoPos {
		return ""
	}
	return " at " + fset.Position(pos).String()
}

// callSSA interprets a call to function fn with arguments args,
// and lexical environment env, returning its result.
func callSSA(i *interpreter, caller *frame, callpos token.Pos, fn *ssa.Function, args []value, env []value) value {
	fr := &frame{
		i:      i,
		caller: caller, // for panic/recover
		fn:     fn,
	}
	if fn.Parent() == nil {
		if ext := i.external(fn); ext != nil {
			if i.tracing {
				fmt.Fprintf(os.Stderr, "native %s\n", fn)
			}
			return ext(fr, args)
		}
		if fn.Blocks == nil {
			i.abort("unsupported", "no code for function %s (called from %s)", fn, callerName(caller))
		}
	}
	if i.tracing {
		fmt.Fprintf(os.Stderr, "enter %s\n", fn)
	}

	// generic function body?
	if fn.TypeParams().Len() > 0 && len(fn.TypeArgs()) == 0 {
		panic("interp requires ssa.BuilderMode to include InstantiateGenerics to execute generics")
	}

	fr.env = make(map[ssa.Value]value)
	fr.block = fn.Blocks[0]
	fr.locals = make([]value, len(fn.Locals))
	for k, l := range fn.Locals {
		fr.locals[k] = zero(mustDeref(l.Type()))
		fr.env[l] = &fr.locals[k]
	}
	for k, p := range fn.Params {
		fr.env[p] = args[k]
	}
	for k, fv := range fn.FreeVars {
		fr.env[fv] = env[k]
	}
	for fr.block != nil {
		runFrame(fr)
	}
	return fr.result
}

func callerName(fr *frame) string {
	if fr == nil || fr.caller == nil || fr.caller.fn == nil {
		return "<top>"
	}
	return fr.caller.fn.String()
}

// runFrame executes SSA instructions starting at fr.block and
// continuing until a return, a panic, or a recovered panic.
func runFrame(fr *frame) {
	defer func() {
		if fr.block == nil {
			return // normal return
		}
		r := recover()
		if ea, ok := r.(*engineAbort); ok {
			panic(ea)
		}
		switch r.(type) {
		case targetPanic:
			if fr.i.path != nil && !fr.panicking && fr.i.path.fs["panicnoted"] != r {
				// innermost frame of a fresh panic: remember where it was raised
				fr.i.path.fs["panicnoted"] = r
				var chain []string
				for f := fr; f != nil && len(chain) < 8; f = f.caller {
					at := ""
					if f.cur != nil {
						at = fmt.Sprintf("@%s", fr.i.prog.Fset.Position(f.cur.Pos()))
						if f == fr {
							at += fmt.Sprintf(" [%v]", f.cur)
						}
					}
					chain = append(chain, f.fn.String()+at)
				}
				fr.i.path.trace = append(fr.i.path.trace, "panic raised in: "+strings.Join(chain, " <- "))
			}
		default:
			// a Go run-time error inside the engine itself is an engine defect, never target behaviour
			buf := make([]byte, 1<<14)
			n := runtime.Stack(buf, false)
			panic(&engineAbort{kind: "engine", msg: fmt.Sprintf("engine panic in %s: %v\n%s", fr.fn, r, buf[:n])})
		}
		fr.panicking = true
		fr.panic = r
		fr.runDefers()
		fr.block = fr.fn.Recover
	}()

	i := fr.i
	for {
		nonPhis := executePhis(fr)
		n := int64(len(nonPhis))
		i.totalSteps += n
		if i.funcSteps != nil {
			i.funcSteps[fr.fn] += n
		}
		if i.path != nil {
			i.path.steps += n
			if i.cfg != nil && i.path.steps > i.cfg.MaxSteps {
				i.abort("budget", "more than %d instructions on one path", i.cfg.MaxSteps)
			}
		}
		for _, instr := range nonPhis {
			fr.cur = instr
			if visitInstr(fr, instr) == kReturn {
				return
			}
			// Inv: kNext (continue) or kJump (last instr)
		}
	}
}

// executePhis executes the phi-nodes at the start of the current
// block and returns the non-phi instructions.
func executePhis(fr *frame) []ssa.Instruction {
	firstNonPhi := -1
	for i, instr := range fr.block.Instrs {
		if _, ok := instr.(*ssa.Phi); !ok {
			firstNonPhi = i
			break
		}
	}
	nonPhis := fr.block.Instrs[firstNonPhi:]
	if firstNonPhi > 0 {
		phis := fr.block.Instrs[:firstNonPhi]
		predIndex := slices.Index(fr.block.Preds, fr.prevBlock)
		fr.phitemps = fr.phitemps[:0]
		for _, phi := range phis {
			phi := phi.(*ssa.Phi)
			fr.phitemps = append(fr.phitemps, fr.get(phi.Edges[predIndex]))
		}
		for i, phi := range phis {
			fr.env[phi.(*ssa.Phi)] = fr.phitemps[i]
		}
	}
	return nonPhis
}

// doRecover implements the recover() built-in.
func doRecover(caller *frame) value {
	if caller != nil && !caller.panicking &&
		caller.caller != nil && caller.caller.panicking {
		caller.caller.panicking = false
		p := caller.caller.panic
		caller.caller.panic = nil

		switch p := p.(type) {
		case targetPanic:
			return p.v
		default:
			panic(fmt.Sprintf("unexpected panic type %T in target call to recover()", p))
		}
	}
	return iface{}
}

// ---- goroutines (eager) and channels (queues)

// spawn runs a goroutine to completion at the spawn point. If it blocks it is
// parked forever (its effects so far remain).
func (i *interpreter) spawn(fr *frame, pos token.Pos, fn value, args []value) {
	i.goDepth++
	defer func() {
		i.goDepth--
		if r := recover(); r != nil {
			if ea, ok := r.(*engineAbort); ok && ea.kind == "blocked" {
				if i.path != nil {
					i.path.notes = append(i.path.notes, "goroutine parked: "+ea.msg)
				}
				return
			}
			if tp, ok := r.(targetPanic); ok {
				// an unrecovered panic in a goroutine kills the program: no frame of the spawner can recover it
				panic(&engineAbort{kind: "goroutine-panic", msg: "unrecovered panic in goroutine: " + toString(tp.v)})
			}
			panic(r)
		}
	}()
	call(i, nil, pos, fn, args)
}

func (i *interpreter) chanSend(ch *channel, v value) bool {
	if ch == nil {
		return false
	}
	if ch.closed {
		i.raise("send on closed channel")
	}
	if len(ch.buf) < ch.cap {
		ch.buf = append(ch.buf, v)
		return true
	}
	return false
}

// chanRecv returns (value, ok, ready).
func (i *interpreter) chanRecv(ch *channel) (value, bool, bool) {
	if ch == nil {
		return nil, false, false
	}
	if len(ch.buf) > 0 {
		v := ch.buf[0]
		ch.buf = ch.buf[1:]
		return v, true, true
	}
	if ch.closed {
		return nil, false, true
	}
	return nil, false, false
}

func (i *interpreter) doSelect(fr *frame, instr *ssa.Select) value {
	chosen := -1
	var recv value
	recvOk := false
	for k, st := range instr.States {
		ch := fr.get(st.Chan).(*channel)
		if ch == nil {
			continue
		}
		if st.Dir == types.RecvOnly {
			if len(ch.buf) > 0 || ch.closed {
				v, ok, _ := i.chanRecv(ch)
				chosen, recv, recvOk = k, v, ok
			}
		} else {
			if ch.closed {
				i.raise("send on closed channel")
			}
			if len(ch.buf) < ch.cap {
				i.chanSend(ch, fr.get(st.Send))
				chosen = k
			}
		}
		if chosen >= 0 {
			break
		}
	}
	if chosen < 0 && instr.Blocking {
		i.abort("blocked", "select with no ready case in %s", fr.fn)
	}
	r := tuple{chosen, recvOk}
	for k, st := range instr.States {
		if st.Dir == types.RecvOnly {
			var v value
			if k == chosen && recvOk {
				v = recv
			} else {
				v = zero(st.Chan.Type().Underlying().(*types.Chan).Elem())
			}
			r = append(r, v)
		}
	}
	return r
}

// outside ends the path because it left the region the engine models; the
// cut is recorded and listed in the evidence as outside the bound.
func (i *interpreter) outside(msg string) {
	i.abort("outside", "%s", msg)
}
