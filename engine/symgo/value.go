// Copyright 2013 The Go Authors. All rights reserved.
// Use of this source code is governed by a BSD-style
// license that can be found in the LICENSE file.

package symgo

// Values
//
// All interpreter values are "boxed" in the empty interface, value.
// The range of possible dynamic types within value are:
//
// - bool
// - numbers (all built-in int/float/complex types are distinguished)
// - string
// - map[value]value --- maps for which  usesBuiltinMap(keyType)
//   *hashmap        --- maps for which !usesBuiltinMap(keyType)
// - chan value
// - []value --- slices
// - iface --- interfaces.
// - structure --- structs.  Fields are ordered and accessed by numeric indices.
// - array --- arrays.
// - *value --- pointers.  Careful: *value is a distinct type from *array etc.
// - *ssa.Function \
//   *ssa.Builtin   } --- functions.  A nil 'func' is always of type *ssa.Function.
//   *closure      /
// - tuple --- as returned by Return, Next, "value,ok" modes, etc.
// - iter --- iterators from 'range' over map or string.
// - bad --- a poison pill for locals that have gone out of scope.
// - rtype -- the interpreter's concrete implementation of reflect.Type
// - **deferred -- the address of a frame's defer stack for a Defer._Stack.
//
// Note that nil is not on this list.
//
// Pay close attention to whether or not the dynamic type is a pointer.
// The compiler cannot help you since value is an empty interface.

import (
	"bytes"
	"fmt"
	"go/types"

	"golang.org/x/tools/go/ssa"
)

type value interface{}

type tuple []value

type array []value

type iface struct {
	t types.Type // never an "untyped" type
	v value
}

type structure []value

type closure struct {
	Fn  *ssa.Function
	Env []value
}

type bad struct{}

type rtype struct {
	t types.Type
}

// reflect.Value struct values don't have a fixed shape, since the
// payload can be a scalar or an aggregate depending on the instance.
// So store (and load) can't simply use recursion over the shape of the
// rhs value, or the lhs, to copy the value; we need the static type
// information.  (We can't make reflect.Value a new basic data type
// because its "structness" is exposed to Go programs.)

// load returns the value of type T in *addr.
func load(T types.Type, addr *value) value {
	switch T := T.Underlying().(type) {
	case *types.Struct:
		v := (*addr).(structure)
		a := make(structure, len(v))
		for i := range a {
			a[i] = load(T.Field(i).Type(), &v[i])
		}
		return a
	case *types.Array:
		v := (*addr).(array)
		a := make(array, len(v))
		for i := range a {
			a[i] = load(T.Elem(), &v[i])
		}
		return a
	default:
		return *addr
	}
}

// store stores value v of type T into *addr.
func store(T types.Type, addr *value, v value) {
	switch T := T.Underlying().(type) {
	case *types.Struct:
		lhs := (*addr).(structure)
		rhs := v.(structure)
		for i := range lhs {
			store(T.Field(i).Type(), &lhs[i], rhs[i])
		}
	case *types.Array:
		lhs := (*addr).(array)
		rhs := v.(array)
		for i := range lhs {
			store(T.Elem(), &lhs[i], rhs[i])
		}
	default:
		*addr = v
	}
}

// Prints in the style of built-in println.
// (More or less; in gc println is actually a compiler intrinsic and
// can distinguish println(1) from println(interface{}(1)).)
func writeValue(buf *bytes.Buffer, v value) {
	switch v := v.(type) {
	case nil, bool, int, int8, int16, int32, int64, uint, uint8, uint16, uint32, uint64, uintptr, float32, float64, complex64, complex128, string:
		fmt.Fprintf(buf, "%v", v)

	case *omap:
		buf.WriteString("map[")
		if v != nil {
			for k := range v.keys {
				if k > 0 {
					buf.WriteString(" ")
				}
				writeValue(buf, v.keys[k])
				buf.WriteString(":")
				writeValue(buf, v.vals[k])
			}
		}
		buf.WriteString("]")

	case *Term:
		buf.WriteString(v.String())

	case symString:
		buf.WriteString("symstr[")
		for k, e := range v {
			if k > 0 {
				buf.WriteString(" ")
			}
			writeValue(buf, e)
		}
		buf.WriteString("]")

	case *channel:
		fmt.Fprintf(buf, "chan(%p)", v)

	case *value:
		if v == nil {
			buf.WriteString("<nil>")
		} else {
			fmt.Fprintf(buf, "%p", v)
		}

	case iface:
		fmt.Fprintf(buf, "(%s, ", v.t)
		writeValue(buf, v.v)
		buf.WriteString(")")

	case structure:
		buf.WriteString("{")
		for i, e := range v {
			if i > 0 {
				buf.WriteString(" ")
			}
			writeValue(buf, e)
		}
		buf.WriteString("}")

	case array:
		buf.WriteString("[")
		for i, e := range v {
			if i > 0 {
				buf.WriteString(" ")
			}
			writeValue(buf, e)
		}
		buf.WriteString("]")

	case []value:
		buf.WriteString("[")
		for i, e := range v {
			if i > 0 {
				buf.WriteString(" ")
			}
			writeValue(buf, e)
		}
		buf.WriteString("]")

	case *ssa.Function, *ssa.Builtin, *closure:
		fmt.Fprintf(buf, "%p", v) // (an address)

	case tuple:
		// Unreachable in well-formed Go programs
		buf.WriteString("(")
		for i, e := range v {
			if i > 0 {
				buf.WriteString(", ")
			}
			writeValue(buf, e)
		}
		buf.WriteString(")")

	default:
		fmt.Fprintf(buf, "<%T>", v)
	}
}

// Implements printing of Go values in the style of built-in println.
func toString(v value) string {
	var b bytes.Buffer
	writeValue(&b, v)
	return b.String()
}
