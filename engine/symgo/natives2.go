package symgo

// Natives for time, fmt, errors and the harness API.

import (
	"fmt"
	"go/token"
	"go/types"
	"math/big"
	"strings"

	"golang.org/x/tools/go/ssa"
)

const (
	tokenADD = token.ADD
	tokenLSS = token.LSS
	tokenGTR = token.GTR
)

// ---- clock
//
// time.now() returns (sec, nsec, mono). sec/nsec are a fixed wall-clock base;
// mono is the harness-controlled virtual clock in nanoseconds, so every Time
// carries a monotonic reading and Sub/Before/After/Add/Since reduce to 64-bit
// add/sub/compare on it.

const clockBaseSec = int64(1_700_000_000)
const clockDefaultNs = int64(1_000_000_000)

func (i *interpreter) clockNow() value {
	p := i.path
	if p == nil {
		return clockDefaultNs
	}
	if v, ok := p.fs["clock"]; ok {
		return v
	}
	if _, auto := p.fs["clockauto"]; auto {
		// fresh non-decreasing instants
		prev, _ := p.fs["clockprev"]
		t := i.draw("clk", sBV(64))
		var lo *Term
		if prev == nil {
			lo = i.ts.BV(64, 0)
		} else {
			lo = i.toTerm(prev)
		}
		i.assume(i.ts.And(i.ts.BVCmp("bvsle", lo, t), i.ts.BVCmp("bvslt", t, i.ts.BV(64, 1<<61))))
		p.fs["clockprev"] = t
		return t
	}
	return clockDefaultNs
}

func extTimeNow(fr *frame, args []value) value {
	return tuple{clockBaseSec, int32(0), fr.i.clockNow()}
}

func extRuntimeNano(fr *frame, args []value) value {
	return fr.i.clockNow()
}

// assume adds c to the path condition, ending the path if it becomes infeasible.
func (i *interpreter) assume(c *Term) {
	if c.IsConst() {
		if c.cv == 0 {
			i.abort("infeasible", "assumption is false")
		}
		return
	}
	if i.replaying() {
		i.addPC(c)
		return
	}
	i.flushAsserts()
	if i.underModel(c) != 1 {
		if !i.feasibleFetch(c) {
			i.abort("infeasible", "assumption makes the path infeasible")
		}
	}
	i.addPC(c)
}

// ---- fmt

func (i *interpreter) errorString(v value) string {
	itf, ok := v.(iface)
	if !ok || itf.t == nil {
		return "<nil>"
	}
	// find Error() string
	ms := i.prog.MethodSets.MethodSet(itf.t)
	for k := 0; k < ms.Len(); k++ {
		sel := ms.At(k)
		if sel.Obj().Name() == "Error" {
			fn := i.prog.MethodValue(sel)
			if fn != nil {
				r := call(i, nil, 0, fn, []value{itf.v})
				if s, ok := r.(string); ok {
					return s
				}
				return "<symbolic error text>"
			}
		}
	}
	return ""
}

func (i *interpreter) goArg(v value) interface{} {
	if itf, ok := v.(iface); ok {
		if itf.t == nil {
			return nil
		}
		if types.Implements(itf.t, errorIface) {
			return i.errorString(itf)
		}
		if hasMethod(i.prog, itf.t, "String") {
			return "<" + itf.t.String() + ">"
		}
		v = itf.v
	}
	switch v := v.(type) {
	case bool, int, int8, int16, int32, int64, uint, uint8, uint16, uint32, uint64, uintptr, float32, float64, string:
		return v
	case *Term:
		return "?"
	case symString:
		return "?str"
	case []value:
		bs := make([]byte, 0, len(v))
		for _, e := range v {
			b, ok := e.(byte)
			if !ok {
				return "?bytes"
			}
			bs = append(bs, b)
		}
		return bs
	}
	return fmt.Sprintf("<%T>", v)
}

var errorIface = types.Universe.Lookup("error").Type().Underlying().(*types.Interface)

func hasMethod(prog *ssa.Program, t types.Type, name string) bool {
	ms := prog.MethodSets.MethodSet(t)
	for k := 0; k < ms.Len(); k++ {
		if ms.At(k).Obj().Name() == name {
			return true
		}
	}
	return false
}

func (i *interpreter) goFormat(format value, args []value) string {
	f, ok := format.(string)
	if !ok {
		return "<symbolic format>"
	}
	f = strings.ReplaceAll(f, "%w", "%v")
	ga := make([]interface{}, len(args))
	for k, a := range args {
		ga[k] = i.goArg(a)
	}
	return fmt.Sprintf(f, ga...)
}

func extSprintf(fr *frame, args []value) value {
	return fr.i.goFormat(args[0], args[1].([]value))
}

func extSprint(fr *frame, args []value) value {
	as := args[0].([]value)
	ga := make([]interface{}, len(as))
	for k, a := range as {
		ga[k] = fr.i.goArg(a)
	}
	return fmt.Sprint(ga...)
}

func (i *interpreter) pkgType(pkg, name string) types.Type {
	p := i.prog.ImportedPackage(pkg)
	if p == nil {
		i.abort("unsupported", "package %s not in program", pkg)
	}
	t := p.Type(name)
	if t == nil {
		i.abort("unsupported", "type %s.%s not found", pkg, name)
	}
	return t.Type()
}

func (i *interpreter) newError(msg string) value {
	t := i.pkgType("errors", "errorString")
	var st value = structure{msg}
	return iface{t: types.NewPointer(t), v: &st}
}

func extErrorf(fr *frame, args []value) value {
	i := fr.i
	msg := i.goFormat(args[0], args[1].([]value))
	f, _ := args[0].(string)
	var wrapped []value
	ai := 0
	as := args[1].([]value)
	for k := 0; k+1 < len(f); k++ {
		if f[k] != '%' {
			continue
		}
		k++
		for k < len(f) && strings.ContainsRune("+-# 0123456789.[]*", rune(f[k])) {
			k++
		}
		if k >= len(f) {
			break
		}
		if f[k] == '%' {
			continue
		}
		if f[k] == 'w' && ai < len(as) {
			if itf, ok := as[ai].(iface); ok && itf.t != nil && types.Implements(itf.t, errorIface) {
				wrapped = append(wrapped, itf)
			}
		}
		ai++
	}
	switch len(wrapped) {
	case 0:
		return i.newError(msg)
	case 1:
		t := i.pkgType("fmt", "wrapError")
		var st value = structure{msg, wrapped[0]}
		return iface{t: types.NewPointer(t), v: &st}
	default:
		t := i.pkgType("fmt", "wrapErrors")
		var st value = structure{msg, wrapped}
		return iface{t: types.NewPointer(t), v: &st}
	}
}

// ---- errors

func (i *interpreter) methodOf(t types.Type, name string) *ssa.Function {
	ms := i.prog.MethodSets.MethodSet(t)
	for k := 0; k < ms.Len(); k++ {
		sel := ms.At(k)
		if sel.Obj().Name() == name {
			return i.prog.MethodValue(sel)
		}
	}
	return nil
}

// unwrap returns the errors directly wrapped by err.
func (i *interpreter) unwrap(err iface) []iface {
	if err.t == nil {
		return nil
	}
	fn := i.methodOf(err.t, "Unwrap")
	if fn == nil {
		return nil
	}
	sig := fn.Signature
	if sig.Params().Len() != 0 || sig.Results().Len() != 1 {
		return nil
	}
	r := call(i, nil, 0, fn, []value{err.v})
	switch r := r.(type) {
	case iface:
		if r.t == nil {
			return nil
		}
		return []iface{r}
	case []value:
		var out []iface
		for _, e := range r {
			if ei, ok := e.(iface); ok && ei.t != nil {
				out = append(out, ei)
			}
		}
		return out
	}
	return nil
}

func (i *interpreter) errorsIs(err, target iface) bool {
	if err.t == nil || target.t == nil {
		return err.t == nil && target.t == nil
	}
	if types.Comparable(target.t) && sameType(err.t, target.t) {
		if i.truth(i.eqv(err.t, err.v, target.v)) {
			return true
		}
	}
	if fn := i.methodOf(err.t, "Is"); fn != nil && fn.Signature.Params().Len() == 1 && fn.Signature.Results().Len() == 1 {
		if r := call(i, nil, 0, fn, []value{err.v, target}); i.truth(r) {
			return true
		}
	}
	for _, u := range i.unwrap(err) {
		if i.errorsIs(u, target) {
			return true
		}
	}
	return false
}

func init() {
	// (syscall.Errno).Error indexes a string table by the errno; with a symbolic errno (fault
	// injection) the text is irrelevant - it only ever reaches log messages
	externals["(syscall.Errno).Error"] = func(fr *frame, args []value) value {
		if _, ok := args[0].(*Term); ok {
			return "errno (symbolic)"
		}
		fr2 := &frame{i: fr.i, caller: fr.caller, fn: fr.fn}
		return runBody(fr2, args)
	}
}

func init() {
	// net.Listen: sockets are outside the engine. A harness that provides vpNetListen (C28) gets
	// the call instead and returns a stub listener; without one the path is unsupported.
	// tls.Listen likewise: the harness's vpTLSListen gets the *tls.Config the server built
	externals["crypto/tls.Listen"] = func(fr *frame, args []value) value {
		fn := fr.i.mainPkg.Func("vpTLSListen")
		if fn == nil {
			fr.i.abort("unsupported", "tls.Listen (no vpTLSListen in the harness package)")
		}
		return call(fr.i, fr, 0, fn, args)
	}
	externals["net.Listen"] = func(fr *frame, args []value) value {
		fn := fr.i.mainPkg.Func("vpNetListen")
		if fn == nil {
			fr.i.abort("unsupported", "net.Listen (no vpNetListen in the harness package)")
		}
		return call(fr.i, fr, 0, fn, args)
	}
}

func extErrorsIs(fr *frame, args []value) value {
	return fr.i.errorsIs(args[0].(iface), args[1].(iface))
}

func extErrorsUnwrap(fr *frame, args []value) value {
	err := args[0].(iface)
	if err.t == nil {
		return iface{}
	}
	fn := fr.i.methodOf(err.t, "Unwrap")
	if fn == nil || fn.Signature.Results().Len() != 1 {
		return iface{}
	}
	if _, ok := fn.Signature.Results().At(0).Type().Underlying().(*types.Interface); !ok {
		return iface{}
	}
	return call(fr.i, nil, 0, fn, []value{err.v})
}

func (i *interpreter) errorsAs(err iface, tgt iface) bool {
	if tgt.t == nil {
		i.raise("errors: target cannot be nil")
	}
	pt, ok := tgt.t.Underlying().(*types.Pointer)
	if !ok {
		i.raise("errors: target must be a non-nil pointer")
	}
	T := pt.Elem()
	cell := tgt.v.(*value)
	for cur := []iface{err}; len(cur) > 0; {
		e := cur[0]
		cur = cur[1:]
		if e.t == nil {
			continue
		}
		if it, isIface := T.Underlying().(*types.Interface); isIface {
			if types.Implements(e.t, it) {
				*cell = e
				return true
			}
		} else if types.Identical(e.t, T) {
			*cell = e.v
			return true
		}
		if fn := i.methodOf(e.t, "As"); fn != nil && fn.Signature.Params().Len() == 1 {
			if r := call(i, nil, 0, fn, []value{e.v, tgt}); i.truth(r) {
				return true
			}
		}
		cur = append(i.unwrap(e), cur...)
	}
	return false
}

func extErrorsAs(fr *frame, args []value) value {
	return fr.i.errorsAs(args[0].(iface), args[1].(iface))
}

// ---- harness API (functions named vp* in the harness package)

var harnessAPI = map[string]externalFn{}

func init() {
	drawBV := func(w int) externalFn {
		return func(fr *frame, args []value) value {
			name, _ := args[0].(string)
			return fr.i.draw(name, sBV(w))
		}
	}
	harnessAPI["vpU8"] = drawBV(8)
	harnessAPI["vpU16"] = drawBV(16)
	harnessAPI["vpU32"] = drawBV(32)
	harnessAPI["vpU64"] = drawBV(64)
	harnessAPI["vpI32"] = drawBV(32)
	harnessAPI["vpI64"] = drawBV(64)
	harnessAPI["vpInt"] = drawBV(64)
	harnessAPI["vpBool"] = func(fr *frame, args []value) value {
		name, _ := args[0].(string)
		b := fr.i.draw(name, sBV(8))
		// booleans travel on the tape as a byte: 0 / non-zero
		return fr.i.unterm(fr.i.ts.Not(fr.i.ts.Eq(b, fr.i.ts.BV(8, 0))))
	}
	harnessAPI["vpF64"] = func(fr *frame, args []value) value {
		name, _ := args[0].(string)
		return fr.i.draw(name, fr.i.floatSort())
	}
	harnessAPI["vpBytes"] = func(fr *frame, args []value) value {
		name, _ := args[0].(string)
		n := int(fr.i.concInt(args[1], "vpBytes length"))
		out := make([]value, n)
		for k := range out {
			out[k] = fr.i.draw(name, sBV(8))
		}
		return out
	}
	harnessAPI["vpStr"] = func(fr *frame, args []value) value {
		name, _ := args[0].(string)
		n := int(fr.i.concInt(args[1], "vpStr length"))
		out := make([]value, n)
		for k := range out {
			out[k] = fr.i.draw(name, sBV(8))
		}
		return mkString(out)
	}
	// vpChoose(name, lo, hi) int: a forking choice of a concrete value in [lo, hi]
	harnessAPI["vpChoose"] = func(fr *frame, args []value) value {
		i := fr.i
		name, _ := args[0].(string)
		lo, hi := args[1].(int), args[2].(int)
		t := i.draw(name, sBV(64))
		i.assume(i.ts.And(i.ts.BVCmp("bvsle", i.ts.BV(64, uint64(lo)), t), i.ts.BVCmp("bvsle", t, i.ts.BV(64, uint64(hi)))))
		for v := lo; v < hi; v++ {
			if i.branch(i.ts.Eq(t, i.ts.BV(64, uint64(v)))) {
				return v
			}
		}
		i.addPC(i.ts.Eq(t, i.ts.BV(64, uint64(hi))))
		return hi
	}
	harnessAPI["vpAssume"] = func(fr *frame, args []value) value {
		fr.i.assume(fr.i.boolTerm(args[0]))
		return nil
	}
	harnessAPI["vpAssert"] = func(fr *frame, args []value) value {
		id, _ := args[1].(string)
		fr.i.doAssert(args[0], id, false, "")
		return nil
	}
	harnessAPI["vpReach"] = func(fr *frame, args []value) value {
		l, _ := args[0].(string)
		p := fr.i.path
		if !p.reached[l] {
			p.reached[l] = true
			p.reachOrd = append(p.reachOrd, l)
		}
		return nil
	}
	harnessAPI["vpObserve"] = func(fr *frame, args []value) value {
		name, _ := args[0].(string)
		v := args[1]
		var t types.Type
		if itf, ok := v.(iface); ok {
			v, t = itf.v, itf.t
		}
		fr.i.path.observes = append(fr.i.path.observes, obsRec{Name: name, Val: v, Typ: t})
		return nil
	}
	harnessAPI["vpKnown"] = func(fr *frame, args []value) value {
		id, _ := args[0].(string)
		if !fr.i.replaying() {
			fr.i.flushAsserts()
		}
		fr.i.path.known = append(fr.i.path.known, knownRegion{id: id, cond: args[1]})
		return nil
	}
	harnessAPI["vpKnownClear"] = func(fr *frame, args []value) value {
		fr.i.path.known = nil
		return nil
	}
	harnessAPI["vpAnd"] = func(fr *frame, args []value) value { return fr.i.andv(args[0], args[1]) }
	harnessAPI["vpOr"] = func(fr *frame, args []value) value {
		return fr.i.notv(fr.i.andv(fr.i.notv(args[0]), fr.i.notv(args[1])))
	}
	harnessAPI["vpNot"] = func(fr *frame, args []value) value { return fr.i.notv(args[0]) }
	harnessAPI["vpImplies"] = func(fr *frame, args []value) value {
		return fr.i.notv(fr.i.andv(args[0], fr.i.notv(args[1])))
	}
	ite := func(fr *frame, args []value) value {
		i := fr.i
		switch c := args[0].(type) {
		case bool:
			if c {
				return args[1]
			}
			return args[2]
		case *Term:
			t := fr.fn.Signature.Results().At(0).Type()
			return i.norm(i.ts.Ite(c, i.toTerm(args[1]), i.toTerm(args[2])), t)
		}
		panic("vpIte: bad condition")
	}
	for _, n := range []string{"vpIteU64", "vpIteU32", "vpIteI64", "vpIteInt", "vpIteBool", "vpIteU8"} {
		harnessAPI[n] = ite
	}
	harnessAPI["vpTier"] = func(fr *frame, args []value) value { return fr.i.cfg.Tier }
	harnessAPI["vpSymbolic"] = func(fr *frame, args []value) value { return true }
	harnessAPI["vpSetClock"] = func(fr *frame, args []value) value {
		fr.i.path.fs["clock"] = args[0]
		return nil
	}
	harnessAPI["vpClockAuto"] = func(fr *frame, args []value) value {
		delete(fr.i.path.fs, "clock")
		fr.i.path.fs["clockauto"] = true
		return nil
	}
	harnessAPI["vpNote"] = func(fr *frame, args []value) value {
		s, _ := args[0].(string)
		fr.i.path.trace = append(fr.i.path.trace, s)
		return nil
	}
	// vpIsConcrete(v any) bool: lets harness code special-case symbolic values (engine only)
	harnessAPI["vpConcreteInt"] = func(fr *frame, args []value) value {
		// returns the concrete value of an int, forking over feasible values (bounded by ConcretizeK)
		return int(fr.i.concInt(args[0], "vpConcreteInt"))
	}
	harnessAPI["vpConcreteU64"] = func(fr *frame, args []value) value {
		if t, ok := args[0].(*Term); ok {
			return fr.i.concretize(t, "vpConcreteU64")
		}
		return args[0]
	}
	harnessAPI["vpFloatFromInt"] = nil
	delete(harnessAPI, "vpFloatFromInt")
}

func init() {
	callStd := func(pkg, name string) externalFn {
		return func(fr *frame, args []value) value {
			p := fr.i.prog.ImportedPackage(pkg)
			if p == nil || p.Func(name) == nil {
				fr.i.abort("unsupported", "%s.%s not in program", pkg, name)
			}
			return call(fr.i, fr, 0, p.Func(name), args)
		}
	}
	harnessAPI["vpNow"] = callStd("time", "Now")
	harnessAPI["vpSince"] = callStd("time", "Since")
}

// ---- wall-clock readings of virtual-clock instants
//
// A Time produced by time.Now() (or derived from one by Add) has the
// hasMonotonic bit and ext = virtual clock in ns; its Unix readings are the
// fixed base plus that clock, which is what the native replay's vpNow() yields.

const hasMonotonicBit = uint64(1) << 63

func timeParts(v value) (wall value, ext value, ok bool) {
	st, isSt := v.(structure)
	if !isSt || len(st) != 3 {
		return nil, nil, false
	}
	return st[0], st[1], true
}

func (i *interpreter) timeMono(v value) (ext value, mono bool) {
	wall, ext, ok := timeParts(v)
	if !ok {
		return nil, false
	}
	w, isConc := wall.(uint64)
	if !isConc {
		return nil, false
	}
	return ext, w&hasMonotonicBit != 0
}

func init() {
	// fall back to the real method bodies when the receiver has no monotonic reading
	orig := func(fr *frame, args []value) value {
		fn := fr.fn
		fr2 := &frame{i: fr.i, caller: fr.caller, fn: fn}
		return runBody(fr2, args)
	}
	t64 := types.Typ[types.Int64]
	externals["(time.Time).UnixNano"] = func(fr *frame, args []value) value {
		ext, mono := fr.i.timeMono(args[0])
		if !mono {
			return orig(fr, args)
		}
		if t, ok := ext.(*Term); ok {
			return fr.i.norm(fr.i.ts.BVOp("bvadd", fr.i.ts.BV(64, uint64(clockBaseSec*1_000_000_000)), t), t64)
		}
		return clockBaseSec*1_000_000_000 + ext.(int64)
	}
	externals["(time.Time).Unix"] = func(fr *frame, args []value) value {
		ext, mono := fr.i.timeMono(args[0])
		if !mono {
			return orig(fr, args)
		}
		if t, ok := ext.(*Term); ok {
			q := fr.i.ts.BVOp("bvsdiv", t, fr.i.ts.BV(64, 1_000_000_000))
			return fr.i.norm(fr.i.ts.BVOp("bvadd", fr.i.ts.BV(64, uint64(clockBaseSec)), q), t64)
		}
		return clockBaseSec + ext.(int64)/1_000_000_000
	}
	externals["(time.Time).Nanosecond"] = func(fr *frame, args []value) value {
		ext, mono := fr.i.timeMono(args[0])
		if !mono {
			return orig(fr, args)
		}
		if t, ok := ext.(*Term); ok {
			return fr.i.norm(fr.i.ts.BVOp("bvsrem", t, fr.i.ts.BV(64, 1_000_000_000)), types.Typ[types.Int])
		}
		return int(ext.(int64) % 1_000_000_000)
	}
}

// runBody executes fn's SSA body in a prepared frame (used by natives that
// only intercept some receivers).
func runBody(fr *frame, args []value) value {
	fn := fr.fn
	fr.env = make(map[ssa.Value]value)
	fr.block = fn.Blocks[0]
	fr.locals = make([]value, len(fn.Locals))
	for k, l := range fn.Locals {
		fr.locals[k] = zero(mustDeref(l.Type()))
		fr.env[l] = &fr.locals[k]
	}
	for k, p := range fn.Params {
		fr.env[p] = args[k]
	}
	for fr.block != nil {
		runFrame(fr)
	}
	return fr.result
}

// ---- abstract instants, durations in seconds

func init() {
	// vpTimeInt(name) int64: an abstract instant (mathematical integer of
	// nanoseconds, 0 <= T < 2^61) entering the code as an int64.
	harnessAPI["vpTimeInt"] = func(fr *frame, args []value) value {
		i := fr.i
		name, _ := args[0].(string)
		T := i.draw(name, sInt)
		lim := new(big.Rat).SetInt(new(big.Int).Lsh(big.NewInt(1), 61))
		i.assume(i.ts.And(i.ts.ArithCmp("<=", i.ts.IntC(0), T), i.ts.ArithCmp("<", T, i.ts.RealCInt(lim))))
		return i.ts.Int2BV(64, T)
	}
	externals["(time.Time).Sub"] = func(fr *frame, args []value) value {
		i := fr.i
		te, tm := i.timeMono(args[0])
		ue, um := i.timeMono(args[1])
		if tm && um && (isSym(te) || isSym(ue)) {
			// both carry the virtual clock; instants are below 2^61 so the difference cannot overflow
			return i.norm(i.ts.BVOp("bvsub", i.toTerm(te), i.toTerm(ue)), types.Typ[types.Int64])
		}
		fr2 := &frame{i: fr.i, caller: fr.caller, fn: fr.fn}
		return runBody(fr2, args)
	}
	externals["(time.Duration).Seconds"] = func(fr *frame, args []value) value {
		i := fr.i
		d, ok := args[0].(*Term)
		if !ok {
			fr2 := &frame{i: fr.i, caller: fr.caller, fn: fr.fn}
			return runBody(fr2, args)
		}
		if i.cfg.FloatMode == "real" {
			var n *Term
			if l, _, ok := i.ts.liftInt(d); ok {
				n = l
			} else {
				u := i.ts.Generic("bv2nat", sInt, d)
				msb := i.ts.BVCmp("bvslt", d, i.ts.BV(64, 0))
				p := new(big.Rat).SetInt(new(big.Int).Lsh(big.NewInt(1), 64))
				n = i.ts.Ite(msb, i.ts.Arith("-", sInt, u, i.ts.RealCInt(p)), u)
			}
			return i.ts.Arith("/", sReal, i.ts.Generic("to_real", sReal, n), i.ts.RealC(big.NewRat(1_000_000_000, 1)))
		}
		// IEEE mode: any finite non-negative double stands for the seconds of a non-negative
		// duration (an over-approximation of the values d/1e9 can take), zero exactly for d == 0
		e := i.draw("seconds", sFP)
		zero := i.ts.FPC(0)
		nonneg := i.ts.BVCmp("bvsle", i.ts.BV(64, 0), d)
		c := i.ts.And(i.ts.Not(i.ts.Generic("fp.isNaN", sBool, e)), i.ts.Not(i.ts.Generic("fp.isInfinite", sBool, e)))
		c = i.ts.And(c, i.ts.Eq(nonneg, i.ts.Generic("fp.leq", sBool, zero, e)))
		c = i.ts.And(c, i.ts.Eq(i.ts.Eq(d, i.ts.BV(64, 0)), i.ts.Generic("fp.eq", sBool, e, zero)))
		c = i.ts.And(c, i.ts.Generic("fp.leq", sBool, e, i.ts.FPC(9.3e9)))
		c = i.ts.And(c, i.ts.Generic("fp.leq", sBool, i.ts.FPC(-9.3e9), e))
		i.assume(c)
		return e
	}
}

// ---- sync.Map: sequential map kept in the struct's "dirty" slot

func syncMapOf(fr *frame, recv value, create bool) *omap {
	p := recv.(*value)
	if p == nil {
		fr.i.nilDeref()
	}
	st := (*p).(structure)
	// struct{ mu Mutex; read atomic.Pointer[readOnly]; dirty map[any]*entry; misses int }
	if m, ok := st[2].(*omap); ok && m != nil {
		return m
	}
	if !create {
		return nil
	}
	m := newOmap(types.NewInterfaceType(nil, nil))
	st[2] = m
	return m
}

func init() {
	externals["(*sync.Map).Load"] = func(fr *frame, args []value) value {
		m := syncMapOf(fr, args[0], false)
		if v, ok := fr.i.mapLookup(m, args[1]); ok {
			return tuple{v, true}
		}
		return tuple{iface{}, false}
	}
	externals["(*sync.Map).Store"] = func(fr *frame, args []value) value {
		fr.i.mapInsert(syncMapOf(fr, args[0], true), args[1], args[2])
		return nil
	}
	externals["(*sync.Map).LoadOrStore"] = func(fr *frame, args []value) value {
		m := syncMapOf(fr, args[0], true)
		if v, ok := fr.i.mapLookup(m, args[1]); ok {
			return tuple{v, true}
		}
		fr.i.mapInsert(m, args[1], args[2])
		return tuple{args[2], false}
	}
	externals["(*sync.Map).LoadAndDelete"] = func(fr *frame, args []value) value {
		m := syncMapOf(fr, args[0], false)
		if v, ok := fr.i.mapLookup(m, args[1]); ok {
			fr.i.mapDelete(m, args[1])
			return tuple{v, true}
		}
		return tuple{iface{}, false}
	}
	externals["(*sync.Map).Delete"] = func(fr *frame, args []value) value {
		if m := syncMapOf(fr, args[0], false); m != nil {
			fr.i.mapDelete(m, args[1])
		}
		return nil
	}
	externals["(*sync.Map).Range"] = func(fr *frame, args []value) value {
		m := syncMapOf(fr, args[0], false)
		if m == nil {
			return nil
		}
		ks := append([]value(nil), m.keys...)
		vs := append([]value(nil), m.vals...)
		for k := range ks {
			if !fr.i.truth(call(fr.i, fr, 0, args[1], []value{ks[k], vs[k]})) {
				break
			}
		}
		return nil
	}
}

func init() {
	// (time.Time).Add on an instant of the virtual clock: ext + d (the wall field is not
	// consulted again: Unix/UnixNano/Nanosecond read ext). Instants and durations are
	// below 2^61 in every harness, so the saturation branches of the real code are unreachable.
	externals["(time.Time).Add"] = func(fr *frame, args []value) value {
		i := fr.i
		ext, mono := i.timeMono(args[0])
		if !mono || (!isSym(ext) && !isSym(args[1])) {
			fr2 := &frame{i: fr.i, caller: fr.caller, fn: fr.fn}
			return runBody(fr2, args)
		}
		st := args[0].(structure)
		ne := i.norm(i.ts.BVOp("bvadd", i.toTerm(ext), i.toTerm(args[1])), types.Typ[types.Int64])
		return structure{st[0], ne, st[2]}
	}
}

func init() {
	dec := func(fr *frame, args []value) value {
		bs := seqOf(args[0])
		sym := false
		for k := 0; k < len(bs) && k < 4; k++ {
			if _, ok := bs[k].(*Term); ok {
				sym = true
			}
		}
		if len(bs) == 0 || !sym {
			fr2 := &frame{i: fr.i, caller: fr.caller, fn: fr.fn}
			return runBody(fr2, args)
		}
		r, n := fr.i.symDecodeRune(bs)
		return tuple{r, n}
	}
	externals["unicode/utf8.DecodeRune"] = dec
	externals["unicode/utf8.DecodeRuneInString"] = dec

	// RuneCount / RuneCountInString / Valid / ValidString index 256-entry tables by the input
	// byte; on symbolic bytes that would fork 256 ways per byte. They are decoded rune by rune
	// with the class-forking decoder above instead (same results as the table-driven code:
	// every invalid or truncated sequence counts as one rune of width 1).
	anySym := func(bs []value) bool {
		for _, b := range bs {
			if _, ok := b.(*Term); ok {
				return true
			}
		}
		return false
	}
	count := func(fr *frame, args []value) value {
		bs := seqOf(args[0])
		if !anySym(bs) {
			fr2 := &frame{i: fr.i, caller: fr.caller, fn: fr.fn}
			return runBody(fr2, args)
		}
		n := 0
		for pos := 0; pos < len(bs); n++ {
			_, sz := fr.i.symDecodeRune(bs[pos:])
			pos += sz
		}
		return n
	}
	externals["unicode/utf8.RuneCount"] = count
	externals["unicode/utf8.RuneCountInString"] = count
	valid := func(fr *frame, args []value) value {
		bs := seqOf(args[0])
		if !anySym(bs) {
			fr2 := &frame{i: fr.i, caller: fr.caller, fn: fr.fn}
			return runBody(fr2, args)
		}
		for pos := 0; pos < len(bs); {
			r, sz := fr.i.symDecodeRune(bs[pos:])
			if sz == 1 {
				// width 1 is either ASCII or an invalid byte (RuneError)
				if rv, ok := r.(int32); ok && rv == 0xFFFD {
					return false
				}
			}
			pos += sz
		}
		return true
	}
	externals["unicode/utf8.Valid"] = valid
	externals["unicode/utf8.ValidString"] = valid
}

// ---- net.ParseIP / net.ParseCIDR: textual parsing is outside the claim. The harness
// registers, per concrete token string, what the parser returns (symbolic bytes).

type cidrStub struct {
	ip, netIP, mask value
}

func init() {
	harnessAPI["vpIPToken"] = func(fr *frame, args []value) value {
		name, _ := args[0].(string)
		tok := "vp-ip-" + name
		fr.i.path.fs["parseip:"+tok] = args[1]
		return tok
	}
	harnessAPI["vpBadToken"] = func(fr *frame, args []value) value {
		name, _ := args[0].(string)
		if b, ok := args[1].(bool); ok && b {
			return "vp-bad-" + name + "/"
		}
		return "vp-bad-" + name
	}
	harnessAPI["vpCIDRToken"] = func(fr *frame, args []value) value {
		name, _ := args[0].(string)
		tok := "vp-cidr-" + name + "/"
		fr.i.path.fs["parsecidr:"+tok] = cidrStub{ip: args[1], netIP: args[2], mask: args[3]}
		return tok
	}
	externals["net.ParseIP"] = func(fr *frame, args []value) value {
		s, ok := args[0].(string)
		if !ok {
			fr.i.abort("unsupported", "net.ParseIP of a string with symbolic bytes")
		}
		if v, ok := fr.i.path.fs["parseip:"+s]; ok {
			return append([]value(nil), v.([]value)...)
		}
		// a concrete text the harness did not register: the real parser, from its SSA
		fr2 := &frame{i: fr.i, caller: fr.caller, fn: fr.fn}
		return runBody(fr2, args)
	}
	externals["net.ParseCIDR"] = func(fr *frame, args []value) value {
		s, ok := args[0].(string)
		if !ok {
			fr.i.abort("unsupported", "net.ParseCIDR of a string with symbolic bytes")
		}
		if v, ok := fr.i.path.fs["parsecidr:"+s]; ok {
			st := v.(cidrStub)
			var n value = structure{append([]value(nil), st.netIP.([]value)...), append([]value(nil), st.mask.([]value)...)}
			return tuple{append([]value(nil), st.ip.([]value)...), &n, iface{}}
		}
		if strings.HasPrefix(s, "vp-") {
			return tuple{[]value(nil), (*value)(nil), fr.i.newError("invalid CIDR address: " + s)}
		}
		// a concrete text the harness did not register: the real parser, from its SSA
		fr2 := &frame{i: fr.i, caller: fr.caller, fn: fr.fn}
		return runBody(fr2, args)
	}
}

func init() {
	// vpStubIP(text, ip16): what net.ParseIP returns for a concrete textual address (nil = unparsable)
	harnessAPI["vpStubIP"] = func(fr *frame, args []value) value {
		s, _ := args[0].(string)
		fr.i.path.fs["parseip:"+s] = args[1]
		return nil
	}
	// fmt.Sscanf on concrete input with integer verbs only
	externals["fmt.Sscanf"] = func(fr *frame, args []value) value {
		str, ok1 := args[0].(string)
		format, ok2 := args[1].(string)
		if !ok1 || !ok2 {
			fr.i.abort("unsupported", "fmt.Sscanf on a string with symbolic bytes")
		}
		ptrs := args[2].([]value)
		ints := make([]int, len(ptrs))
		ga := make([]interface{}, len(ptrs))
		for k := range ptrs {
			itf := ptrs[k].(iface)
			pt, ok := itf.t.Underlying().(*types.Pointer)
			if !ok {
				fr.i.abort("unsupported", "fmt.Sscanf operand %v", itf.t)
			}
			if b, ok := pt.Elem().Underlying().(*types.Basic); !ok || b.Kind() != types.Int {
				fr.i.abort("unsupported", "fmt.Sscanf operand %v", itf.t)
			}
			ga[k] = &ints[k]
		}
		n, err := fmt.Sscanf(str, format, ga...)
		for k := 0; k < n && k < len(ptrs); k++ {
			*(ptrs[k].(iface).v.(*value)) = ints[k]
		}
		if err != nil {
			return tuple{n, fr.i.newError(err.Error())}
		}
		return tuple{n, iface{}}
	}
}

// ---- TLS configuration (C30): file I/O and crypto are outside the claim

func init() {
	externals["crypto/tls.LoadX509KeyPair"] = func(fr *frame, args []value) value {
		i := fr.i
		// a fresh certificate identity on every load: Certificate = [][]byte{{n}}
		n, _ := i.path.fs["certloads"].(int)
		n++
		i.path.fs["certloads"] = n
		ct := fr.fn.Signature.Results().At(0).Type()
		c := zero(ct).(structure)
		c[0] = []value{[]value{byte(n)}}
		if p, _ := args[0].(string); p == "missing.pem" {
			return tuple{zero(ct), i.newError("open missing.pem: no such file or directory")}
		}
		return tuple{c, iface{}}
	}
	externals["os.Stat"] = func(fr *frame, args []value) value {
		if p, _ := args[0].(string); p == "missing.pem" {
			return tuple{iface{}, fr.i.newError("stat missing.pem: no such file or directory")}
		}
		return tuple{iface{}, iface{}}
	}
	externals["os.ReadFile"] = func(fr *frame, args []value) value {
		if p, _ := args[0].(string); p == "missing.pem" {
			return tuple{[]value(nil), fr.i.newError("open missing.pem: no such file or directory")}
		}
		return tuple{[]value{byte('P'), byte('E'), byte('M')}, iface{}}
	}
	externals["crypto/x509.NewCertPool"] = func(fr *frame, args []value) value {
		v := zero(mustDeref(fr.fn.Signature.Results().At(0).Type()))
		return &v
	}
	externals["(*crypto/x509.CertPool).AppendCertsFromPEM"] = func(fr *frame, args []value) value { return true }
}

// reflect.DeepEqual over the engine's own value representation (the real one walks
// reflect.Value internals through unsafe pointers). Type-directed; scalars compare with
// eqv and may therefore yield a symbolic boolean.
func (i *interpreter) deepEq(t types.Type, x, y value, depth int) value {
	if depth > 64 {
		i.abort("unsupported", "reflect.DeepEqual: recursion deeper than 64 (cyclic value?)")
	}
	switch tt := t.Underlying().(type) {
	case *types.Pointer:
		xp, _ := x.(*value)
		yp, _ := y.(*value)
		if xp == yp {
			return true
		}
		if xp == nil || yp == nil {
			return false
		}
		return i.deepEq(tt.Elem(), load(tt.Elem(), xp), load(tt.Elem(), yp), depth+1)
	case *types.Slice:
		xs, _ := x.([]value)
		ys, _ := y.([]value)
		if (xs == nil) != (ys == nil) || len(xs) != len(ys) {
			return false
		}
		var acc value = true
		for k := range xs {
			acc = i.andv(acc, i.deepEq(tt.Elem(), xs[k], ys[k], depth+1))
			if b, ok := acc.(bool); ok && !b {
				return false
			}
		}
		return acc
	case *types.Array:
		xs, ys := x.(array), y.(array)
		var acc value = true
		for k := range xs {
			acc = i.andv(acc, i.deepEq(tt.Elem(), xs[k], ys[k], depth+1))
			if b, ok := acc.(bool); ok && !b {
				return false
			}
		}
		return acc
	case *types.Struct:
		xs, ys := x.(structure), y.(structure)
		var acc value = true
		for k := range xs {
			acc = i.andv(acc, i.deepEq(tt.Field(k).Type(), xs[k], ys[k], depth+1))
			if b, ok := acc.(bool); ok && !b {
				return false
			}
		}
		return acc
	case *types.Map:
		xm, _ := x.(*omap)
		ym, _ := y.(*omap)
		if (xm == nil) != (ym == nil) {
			return false
		}
		if xm == nil || xm == ym {
			return true
		}
		if len(xm.keys) != len(ym.keys) {
			return false
		}
		var acc value = true
		for k, key := range xm.keys {
			p := i.mapFind(ym, key)
			if p < 0 {
				return false
			}
			acc = i.andv(acc, i.deepEq(tt.Elem(), xm.vals[k], ym.vals[p], depth+1))
			if b, ok := acc.(bool); ok && !b {
				return false
			}
		}
		return acc
	case *types.Interface:
		xi, yi := x.(iface), y.(iface)
		if !sameType(xi.t, yi.t) {
			return false
		}
		if xi.t == nil {
			return true
		}
		return i.deepEq(xi.t, xi.v, yi.v, depth+1)
	case *types.Signature:
		return isNilRef(x) && isNilRef(y)
	}
	return i.eqv(t, x, y)
}

func init() {
	externals["reflect.DeepEqual"] = func(fr *frame, args []value) value {
		xi, yi := args[0].(iface), args[1].(iface)
		if xi.t == nil || yi.t == nil {
			return xi.t == nil && yi.t == nil
		}
		if !sameType(xi.t, yi.t) {
			return false
		}
		return fr.i.deepEq(xi.t, xi.v, yi.v, 0)
	}
}
