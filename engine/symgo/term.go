package symgo

// Hash-consed SMT terms with constant folding.
//
// Every Go integer kind is a bit-vector of its width; bool is Bool.
// float64 is either (_ FloatingPoint 11 53) or Real, chosen per harness.

import (
	"fmt"
	"math"
	"math/big"
	"strconv"
	"strings"
)

type sortKind uint8

const (
	kBool sortKind = iota
	kBV
	kInt
	kReal
	kFP
)

type Sort struct {
	K sortKind
	W int // bit width for kBV
}

var (
	sBool = Sort{K: kBool}
	sInt  = Sort{K: kInt}
	sReal = Sort{K: kReal}
	sFP   = Sort{K: kFP}
)

func sBV(w int) Sort { return Sort{K: kBV, W: w} }

func (s Sort) String() string {
	switch s.K {
	case kBool:
		return "Bool"
	case kBV:
		return "(_ BitVec " + strconv.Itoa(s.W) + ")"
	case kInt:
		return "Int"
	case kReal:
		return "Real"
	case kFP:
		return "(_ FloatingPoint 11 53)"
	}
	return "?"
}

// Term is an immutable SMT expression node.
type Term struct {
	id    int
	op    string // "const", "var", or an SMT-LIB operator name
	sort  Sort
	args  []*Term
	cv    uint64   // constant value for kBV / kBool(0,1)
	big   *big.Rat // constant for kInt/kReal
	fv    float64  // constant for kFP
	name  string   // for var
	p0    int      // extract hi / extend amount
	p1    int      // extract lo
	depth int
}

func (t *Term) IsConst() bool { return t.op == "const" }
func (t *Term) Sort() Sort    { return t.sort }

// TermStore hash-conses terms; one per worker.
type TermStore struct {
	tab   map[string]*Term
	all   []*Term
	vars  []*Term
	varBy map[string]*Term
}

func NewTermStore() *TermStore {
	return &TermStore{tab: map[string]*Term{}, varBy: map[string]*Term{}}
}

func mask(w int) uint64 {
	if w >= 64 {
		return ^uint64(0)
	}
	return (uint64(1) << uint(w)) - 1
}

func sext(v uint64, w int) int64 {
	if w >= 64 {
		return int64(v)
	}
	sh := uint(64 - w)
	return int64(v<<sh) >> sh
}

func (ts *TermStore) intern(key string, mk func() *Term) *Term {
	if t, ok := ts.tab[key]; ok {
		return t
	}
	t := mk()
	t.id = len(ts.all)
	d := 0
	for _, a := range t.args {
		if a.depth+1 > d {
			d = a.depth + 1
		}
	}
	t.depth = d
	ts.all = append(ts.all, t)
	ts.tab[key] = t
	return t
}

func (ts *TermStore) BV(w int, v uint64) *Term {
	v &= mask(w)
	key := "c" + strconv.Itoa(w) + ":" + strconv.FormatUint(v, 16)
	return ts.intern(key, func() *Term { return &Term{op: "const", sort: sBV(w), cv: v} })
}

func (ts *TermStore) Bool(b bool) *Term {
	if b {
		return ts.intern("true", func() *Term { return &Term{op: "const", sort: sBool, cv: 1} })
	}
	return ts.intern("false", func() *Term { return &Term{op: "const", sort: sBool, cv: 0} })
}

func (ts *TermStore) IntC(v int64) *Term {
	r := new(big.Rat).SetInt64(v)
	return ts.intern("ci:"+r.String(), func() *Term { return &Term{op: "const", sort: sInt, big: r} })
}

// RealCInt makes an Int-sorted constant from an integral rational.
func (ts *TermStore) RealCInt(r *big.Rat) *Term {
	return ts.intern("ci:"+r.String(), func() *Term { return &Term{op: "const", sort: sInt, big: r} })
}

func (ts *TermStore) RealC(r *big.Rat) *Term {
	return ts.intern("cr:"+r.String(), func() *Term { return &Term{op: "const", sort: sReal, big: r} })
}

func (ts *TermStore) FPC(f float64) *Term {
	return ts.intern("cf:"+strconv.FormatUint(math.Float64bits(f), 16), func() *Term { return &Term{op: "const", sort: sFP, fv: f} })
}

func (ts *TermStore) Var(name string, s Sort) *Term {
	if v, ok := ts.varBy[name]; ok {
		if v.sort != s {
			panic(fmt.Sprintf("symbolic variable %s redeclared with different sort %v vs %v", name, v.sort, s))
		}
		return v
	}
	v := ts.intern("v:"+name, func() *Term { return &Term{op: "var", sort: s, name: name} })
	ts.varBy[name] = v
	ts.vars = append(ts.vars, v)
	return v
}

func (ts *TermStore) mk(op string, s Sort, p0, p1 int, args ...*Term) *Term {
	var sb strings.Builder
	sb.WriteString(op)
	sb.WriteByte('|')
	sb.WriteString(strconv.Itoa(p0))
	sb.WriteByte(',')
	sb.WriteString(strconv.Itoa(p1))
	for _, a := range args {
		sb.WriteByte(' ')
		sb.WriteString(strconv.Itoa(a.id))
	}
	if s.K != kBV && s.K != kBool {
		sb.WriteString(s.String())
	}
	cp := append([]*Term(nil), args...)
	return ts.intern(sb.String(), func() *Term { return &Term{op: op, sort: s, args: cp, p0: p0, p1: p1} })
}

// ---- Boolean connectives

func (ts *TermStore) Not(a *Term) *Term {
	if a.IsConst() {
		return ts.Bool(a.cv == 0)
	}
	if a.op == "not" {
		return a.args[0]
	}
	return ts.mk("not", sBool, 0, 0, a)
}

func (ts *TermStore) And(a, b *Term) *Term {
	if a.IsConst() {
		if a.cv == 0 {
			return a
		}
		return b
	}
	if b.IsConst() {
		if b.cv == 0 {
			return b
		}
		return a
	}
	if a == b {
		return a
	}
	return ts.mk("and", sBool, 0, 0, a, b)
}

func (ts *TermStore) Or(a, b *Term) *Term {
	if a.IsConst() {
		if a.cv == 1 {
			return a
		}
		return b
	}
	if b.IsConst() {
		if b.cv == 1 {
			return b
		}
		return a
	}
	if a == b {
		return a
	}
	return ts.mk("or", sBool, 0, 0, a, b)
}

func (ts *TermStore) Implies(a, b *Term) *Term { return ts.Or(ts.Not(a), b) }

func (ts *TermStore) Ite(c, a, b *Term) *Term {
	if c.IsConst() {
		if c.cv == 1 {
			return a
		}
		return b
	}
	if a == b {
		return a
	}
	if a.sort == sBool {
		if a.IsConst() && b.IsConst() {
			if a.cv == 1 {
				return c
			}
			return ts.Not(c)
		}
	}
	return ts.mk("ite", a.sort, 0, 0, c, a, b)
}

func (ts *TermStore) Eq(a, b *Term) *Term {
	if a == b {
		return ts.Bool(true)
	}
	if a.sort != b.sort {
		panic(fmt.Sprintf("Eq: sort mismatch %v vs %v", a.sort, b.sort))
	}
	if a.IsConst() && b.IsConst() {
		switch a.sort.K {
		case kBV, kBool:
			return ts.Bool(a.cv == b.cv)
		case kInt, kReal:
			return ts.Bool(a.big.Cmp(b.big) == 0)
		case kFP:
			return ts.Bool(a.fv == b.fv)
		}
	}
	if a.sort == sBool {
		if a.IsConst() {
			if a.cv == 1 {
				return b
			}
			return ts.Not(b)
		}
		if b.IsConst() {
			if b.cv == 1 {
				return a
			}
			return ts.Not(a)
		}
	}
	if a.sort == sFP {
		return ts.mk("fp.eq", sBool, 0, 0, a, b)
	}
	if a.sort.K == kBV {
		la, ia, oka := ts.liftInt(a)
		lb, ib, okb := ts.liftInt(b)
		if oka && okb && (ia || ib) {
			return ts.Eq(la, lb)
		}
	}
	if a.id > b.id {
		a, b = b, a
	}
	return ts.mk("=", sBool, 0, 0, a, b)
}

// ---- bit-vector operations

func foldBV(op string, w int, x, y uint64) (uint64, bool) {
	m := mask(w)
	switch op {
	case "bvadd":
		return (x + y) & m, true
	case "bvsub":
		return (x - y) & m, true
	case "bvmul":
		return (x * y) & m, true
	case "bvand":
		return x & y, true
	case "bvor":
		return x | y, true
	case "bvxor":
		return x ^ y, true
	case "bvudiv":
		if y == 0 {
			return m, true
		}
		return x / y, true
	case "bvurem":
		if y == 0 {
			return x, true
		}
		return x % y, true
	case "bvsdiv":
		sx, sy := sext(x, w), sext(y, w)
		if sy == 0 {
			if sx < 0 {
				return 1, true
			}
			return m, true
		}
		if sy == -1 {
			return uint64(-sx) & m, true
		}
		return uint64(sx/sy) & m, true
	case "bvsrem":
		sx, sy := sext(x, w), sext(y, w)
		if sy == 0 {
			return x, true
		}
		if sy == -1 {
			return 0, true
		}
		return uint64(sx%sy) & m, true
	case "bvshl":
		if y >= uint64(w) {
			return 0, true
		}
		return (x << y) & m, true
	case "bvlshr":
		if y >= uint64(w) {
			return 0, true
		}
		return x >> y, true
	case "bvashr":
		sx := sext(x, w)
		if y >= uint64(w) {
			y = uint64(w - 1)
			if w == 64 {
				y = 63
			}
		}
		return uint64(sx>>y) & m, true
	}
	return 0, false
}

func foldCmp(op string, w int, x, y uint64) (bool, bool) {
	switch op {
	case "bvult":
		return x < y, true
	case "bvule":
		return x <= y, true
	case "bvslt":
		return sext(x, w) < sext(y, w), true
	case "bvsle":
		return sext(x, w) <= sext(y, w), true
	}
	return false, false
}

func (ts *TermStore) BVOp(op string, a, b *Term) *Term {
	if a.sort != b.sort || a.sort.K != kBV {
		panic(fmt.Sprintf("BVOp %s: sorts %v %v", op, a.sort, b.sort))
	}
	w := a.sort.W
	if a.IsConst() && b.IsConst() {
		if v, ok := foldBV(op, w, a.cv, b.cv); ok {
			return ts.BV(w, v)
		}
	}
	// cheap identities
	switch op {
	case "bvadd", "bvor", "bvxor":
		if a.IsConst() && a.cv == 0 {
			return b
		}
		if b.IsConst() && b.cv == 0 {
			return a
		}
	case "bvsub", "bvshl", "bvlshr", "bvashr":
		if b.IsConst() && b.cv == 0 {
			return a
		}
	case "bvand":
		if a.IsConst() && a.cv == 0 {
			return a
		}
		if b.IsConst() && b.cv == 0 {
			return b
		}
		if a.IsConst() && a.cv == mask(w) {
			return b
		}
		if b.IsConst() && b.cv == mask(w) {
			return a
		}
	case "bvmul":
		if a.IsConst() && a.cv == 1 {
			return b
		}
		if b.IsConst() && b.cv == 1 {
			return a
		}
		if (a.IsConst() && a.cv == 0) || (b.IsConst() && b.cv == 0) {
			return ts.BV(w, 0)
		}
	}
	return ts.mk(op, a.sort, 0, 0, a, b)
}

func (ts *TermStore) BVCmp(op string, a, b *Term) *Term {
	if a.sort != b.sort || a.sort.K != kBV {
		panic(fmt.Sprintf("BVCmp %s: sorts %v %v", op, a.sort, b.sort))
	}
	if a.IsConst() && b.IsConst() {
		if v, ok := foldCmp(op, a.sort.W, a.cv, b.cv); ok {
			return ts.Bool(v)
		}
	}
	if a == b {
		return ts.Bool(op == "bvule" || op == "bvsle")
	}
	if op == "bvslt" || op == "bvsle" {
		la, ia, oka := ts.liftInt(a)
		lb, ib, okb := ts.liftInt(b)
		if oka && okb && (ia || ib) {
			if op == "bvslt" {
				return ts.ArithCmp("<", la, lb)
			}
			return ts.ArithCmp("<=", la, lb)
		}
	}
	return ts.mk(op, sBool, 0, 0, a, b)
}

func (ts *TermStore) BVNot(a *Term) *Term {
	if a.IsConst() {
		return ts.BV(a.sort.W, ^a.cv)
	}
	return ts.mk("bvnot", a.sort, 0, 0, a)
}

func (ts *TermStore) BVNeg(a *Term) *Term {
	if a.IsConst() {
		return ts.BV(a.sort.W, -a.cv)
	}
	return ts.mk("bvneg", a.sort, 0, 0, a)
}

func (ts *TermStore) Extract(hi, lo int, a *Term) *Term {
	w := hi - lo + 1
	if lo == 0 && w == a.sort.W {
		return a
	}
	if a.IsConst() {
		return ts.BV(w, a.cv>>uint(lo))
	}
	// extract of zero/sign extension that stays within the original
	if (a.op == "zero_extend" || a.op == "sign_extend") && hi < a.args[0].sort.W {
		return ts.Extract(hi, lo, a.args[0])
	}
	if a.op == "concat" {
		lw := a.args[1].sort.W
		if hi < lw {
			return ts.Extract(hi, lo, a.args[1])
		}
		if lo >= lw {
			return ts.Extract(hi-lw, lo-lw, a.args[0])
		}
	}
	return ts.mk("extract", sBV(w), hi, lo, a)
}

func (ts *TermStore) ZeroExt(n int, a *Term) *Term {
	if n == 0 {
		return a
	}
	if a.IsConst() {
		return ts.BV(a.sort.W+n, a.cv)
	}
	return ts.mk("zero_extend", sBV(a.sort.W+n), n, 0, a)
}

func (ts *TermStore) SignExt(n int, a *Term) *Term {
	if n == 0 {
		return a
	}
	if a.IsConst() {
		return ts.BV(a.sort.W+n, uint64(sext(a.cv, a.sort.W)))
	}
	return ts.mk("sign_extend", sBV(a.sort.W+n), n, 0, a)
}

func (ts *TermStore) Concat(hi, lo *Term) *Term {
	w := hi.sort.W + lo.sort.W
	if hi.IsConst() && lo.IsConst() && w <= 64 {
		return ts.BV(w, hi.cv<<uint(lo.sort.W)|lo.cv)
	}
	return ts.mk("concat", sBV(w), 0, 0, hi, lo)
}

// Resize converts a bit-vector to width w (truncate / extend by signedness of source).
func (ts *TermStore) Resize(a *Term, w int, srcSigned bool) *Term {
	sw := a.sort.W
	switch {
	case w == sw:
		return a
	case w < sw:
		return ts.Extract(w-1, 0, a)
	case srcSigned:
		return ts.SignExt(w-sw, a)
	default:
		return ts.ZeroExt(w-sw, a)
	}
}

// ---- Int islands inside bit-vector code
//
// Int2BV(x) is how an abstract (mathematical) instant enters wrap-around
// code. Additions, subtractions and comparisons whose leaves are Int2BV terms
// and constants are decided in integer arithmetic (liftInt), which is exact as
// long as the values stay inside the signed 64-bit range — the harnesses that
// use this state that range assumption.

func (ts *TermStore) Int2BV(w int, x *Term) *Term {
	if x.IsConst() && x.big != nil && x.big.IsInt() {
		return ts.BV(w, uint64(x.big.Num().Int64()))
	}
	return ts.mk("int2bv", sBV(w), w, 0, x)
}

// liftInt returns the mathematical-integer reading of a bit-vector term built
// from Int2BV leaves, constants, bvadd and bvsub; hasIsland reports whether an
// Int2BV leaf occurs.
func (ts *TermStore) liftInt(t *Term) (r *Term, hasIsland bool, ok bool) {
	switch t.op {
	case "int2bv":
		return t.args[0], true, true
	case "const":
		if t.sort.K == kBV {
			return ts.IntC(sext(t.cv, t.sort.W)), false, true
		}
	case "bvadd", "bvsub":
		a, ia, oka := ts.liftInt(t.args[0])
		b, ib, okb := ts.liftInt(t.args[1])
		if oka && okb {
			op := "+"
			if t.op == "bvsub" {
				op = "-"
			}
			return ts.Arith(op, sInt, a, b), ia || ib, true
		}
	case "bvneg":
		a, ia, oka := ts.liftInt(t.args[0])
		if oka {
			return ts.Arith("-", sInt, ts.IntC(0), a), ia, true
		}
	case "ite":
		a, ia, oka := ts.liftInt(t.args[1])
		b, ib, okb := ts.liftInt(t.args[2])
		if oka && okb {
			return ts.Ite(t.args[0], a, b), ia || ib, true
		}
	}
	return nil, false, false
}

// ---- arithmetic sorts (Int / Real) and FP

func (ts *TermStore) Arith(op string, s Sort, args ...*Term) *Term {
	allc := true
	for _, a := range args {
		if !a.IsConst() {
			allc = false
		}
	}
	if allc && (s.K == kInt || s.K == kReal) && len(args) == 2 && args[0].big != nil && args[1].big != nil {
		x, y := args[0].big, args[1].big
		r := new(big.Rat)
		switch op {
		case "+":
			r.Add(x, y)
		case "-":
			r.Sub(x, y)
		case "*":
			r.Mul(x, y)
		case "/":
			if y.Sign() != 0 {
				r.Quo(x, y)
			} else {
				r = nil
			}
		default:
			r = nil
		}
		if r != nil {
			if s.K == kInt {
				if r.IsInt() {
					return ts.intern("ci:"+r.String(), func() *Term { return &Term{op: "const", sort: sInt, big: r} })
				}
			} else {
				return ts.RealC(r)
			}
		}
	}
	return ts.mk(op, s, 0, 0, args...)
}

func (ts *TermStore) ArithCmp(op string, a, b *Term) *Term {
	if a.IsConst() && b.IsConst() && a.big != nil && b.big != nil {
		c := a.big.Cmp(b.big)
		switch op {
		case "<":
			return ts.Bool(c < 0)
		case "<=":
			return ts.Bool(c <= 0)
		case ">":
			return ts.Bool(c > 0)
		case ">=":
			return ts.Bool(c >= 0)
		}
	}
	return ts.mk(op, sBool, 0, 0, a, b)
}

// Generic builds an operator application without folding.
func (ts *TermStore) Generic(op string, s Sort, args ...*Term) *Term {
	return ts.mk(op, s, 0, 0, args...)
}

// ---- printing

func bvLit(w int, v uint64) string {
	if w%4 == 0 {
		return fmt.Sprintf("#x%0*x", w/4, v)
	}
	return fmt.Sprintf("#b%0*b", w, v)
}

func ratLit(r *big.Rat, s Sort) string {
	neg := r.Sign() < 0
	a := new(big.Rat).Abs(r)
	var body string
	if a.IsInt() {
		body = a.Num().String()
		if s.K == kReal {
			body += ".0"
		}
	} else {
		body = "(/ " + a.Num().String() + ".0 " + a.Denom().String() + ".0)"
	}
	if neg {
		return "(- " + body + ")"
	}
	return body
}

func (t *Term) ref() string {
	switch t.op {
	case "const":
		switch t.sort.K {
		case kBool:
			if t.cv == 1 {
				return "true"
			}
			return "false"
		case kBV:
			return bvLit(t.sort.W, t.cv)
		case kInt, kReal:
			return ratLit(t.big, t.sort)
		case kFP:
			b := math.Float64bits(t.fv)
			return fmt.Sprintf("(fp #b%b #b%011b #b%052b)", b>>63, (b>>52)&0x7ff, b&((1<<52)-1))
		}
	case "var":
		return t.name
	}
	return "t" + strconv.Itoa(t.id)
}

// body renders the defining expression of a non-leaf term using refs to children.
func (t *Term) body() string {
	var sb strings.Builder
	sb.WriteByte('(')
	switch t.op {
	case "extract":
		fmt.Fprintf(&sb, "(_ extract %d %d)", t.p0, t.p1)
	case "zero_extend", "sign_extend":
		fmt.Fprintf(&sb, "(_ %s %d)", t.op, t.p0)
	case "int2bv":
		fmt.Fprintf(&sb, "(_ int2bv %d)", t.p0)
	case "to_fp_real":
		sb.WriteString("(_ to_fp 11 53) RNE")
	case "to_fp_sbv":
		sb.WriteString("(_ to_fp 11 53) RNE")
	case "to_fp_ubv":
		sb.WriteString("(_ to_fp_unsigned 11 53) RNE")
	case "fp.to_sbv":
		fmt.Fprintf(&sb, "(_ fp.to_sbv %d) RTZ", t.p0)
	case "fp.to_ubv":
		fmt.Fprintf(&sb, "(_ fp.to_ubv %d) RTZ", t.p0)
	case "fp.add", "fp.sub", "fp.mul", "fp.div":
		sb.WriteString(t.op + " RNE")
	default:
		sb.WriteString(t.op)
	}
	for _, a := range t.args {
		sb.WriteByte(' ')
		sb.WriteString(a.ref())
	}
	sb.WriteByte(')')
	return sb.String()
}

// String renders the full expression tree (debugging / samples; may be large).
func (t *Term) String() string {
	if t.op == "const" || t.op == "var" {
		return t.ref()
	}
	if t.depth > 6 {
		return "t" + strconv.Itoa(t.id) + "{" + t.op + "...}"
	}
	var sb strings.Builder
	sb.WriteByte('(')
	switch t.op {
	case "extract":
		fmt.Fprintf(&sb, "(_ extract %d %d)", t.p0, t.p1)
	case "zero_extend", "sign_extend":
		fmt.Fprintf(&sb, "(_ %s %d)", t.op, t.p0)
	default:
		sb.WriteString(t.op)
	}
	for _, a := range t.args {
		sb.WriteByte(' ')
		sb.WriteString(a.String())
	}
	sb.WriteByte(')')
	return sb.String()
}

// ---- evaluation under a model (variables -> constants)

type Model map[string]*Term // var name -> const term

// Eval computes the value of t under m; variables absent from m evaluate to zero.
func (ts *TermStore) Eval(t *Term, m Model, memo map[int]*Term) *Term {
	if t.op == "const" {
		return t
	}
	if r, ok := memo[t.id]; ok {
		return r
	}
	var r *Term
	if t.op == "var" {
		if c, ok := m[t.name]; ok {
			r = c
		} else {
			r = ts.zeroOf(t.sort)
		}
		memo[t.id] = r
		return r
	}
	args := make([]*Term, len(t.args))
	for i, a := range t.args {
		args[i] = ts.Eval(a, m, memo)
	}
	r = ts.rebuild(t, args)
	memo[t.id] = r
	return r
}

func (ts *TermStore) zeroOf(s Sort) *Term {
	switch s.K {
	case kBool:
		return ts.Bool(false)
	case kBV:
		return ts.BV(s.W, 0)
	case kInt:
		return ts.IntC(0)
	case kReal:
		return ts.RealC(new(big.Rat))
	case kFP:
		return ts.FPC(0)
	}
	panic("zeroOf")
}

func (ts *TermStore) rebuild(t *Term, a []*Term) *Term {
	switch t.op {
	case "not":
		return ts.Not(a[0])
	case "and":
		return ts.And(a[0], a[1])
	case "or":
		return ts.Or(a[0], a[1])
	case "ite":
		return ts.Ite(a[0], a[1], a[2])
	case "=", "fp.eq":
		return ts.Eq(a[0], a[1])
	case "bvadd", "bvsub", "bvmul", "bvand", "bvor", "bvxor", "bvudiv", "bvurem", "bvsdiv", "bvsrem", "bvshl", "bvlshr", "bvashr":
		return ts.BVOp(t.op, a[0], a[1])
	case "bvult", "bvule", "bvslt", "bvsle":
		return ts.BVCmp(t.op, a[0], a[1])
	case "bvnot":
		return ts.BVNot(a[0])
	case "bvneg":
		return ts.BVNeg(a[0])
	case "extract":
		return ts.Extract(t.p0, t.p1, a[0])
	case "zero_extend":
		return ts.ZeroExt(t.p0, a[0])
	case "sign_extend":
		return ts.SignExt(t.p0, a[0])
	case "concat":
		return ts.Concat(a[0], a[1])
	case "int2bv":
		return ts.Int2BV(t.p0, a[0])
	case "+", "-", "*", "/":
		return ts.Arith(t.op, t.sort, a...)
	case "<", "<=", ">", ">=":
		return ts.ArithCmp(t.op, a[0], a[1])
	}
	return ts.mk(t.op, t.sort, t.p0, t.p1, a...)
}
