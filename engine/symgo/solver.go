package symgo

// One long-lived SMT solver process per worker, driven over stdin/stdout.
// Terms are introduced once with global define-fun/declare-const so the
// solver sees a shared DAG; path conditions live in push/pop scopes.

import (
	"bufio"
	"fmt"
	"io"
	"math/big"
	"os"
	"os/exec"
	"strconv"
	"strings"
	"time"
)

type SolverKind int

const (
	SolverZ3 SolverKind = iota
	SolverZ3New
	SolverCVC5
)

func (k SolverKind) String() string {
	return [...]string{"z3", "z3-new", "cvc5"}[k]
}

type SolverStats struct {
	Sat, Unsat, Unknown int
	Time                time.Duration
	ModelTime           time.Duration
	Errors              int
}

type Solver struct {
	kind    SolverKind
	cmd     *exec.Cmd
	in      *bufio.Writer
	out     *bufio.Reader
	defined map[int]bool
	ts      *TermStore
	Stats   SolverStats
	log     io.Writer
	timeout int // ms per query
	depth   int
	dead    bool
	lastErr string
}

func NewSolver(kind SolverKind, ts *TermStore, timeoutMs int) (*Solver, error) {
	var cmd *exec.Cmd
	switch kind {
	case SolverZ3:
		cmd = exec.Command("z3", "-in")
	case SolverZ3New:
		cmd = exec.Command("z3-new", "-in")
	case SolverCVC5:
		cmd = exec.Command("cvc5", "--incremental", "--produce-models", "--lang", "smt2", "--tlimit-per", strconv.Itoa(timeoutMs))
	}
	stdin, err := cmd.StdinPipe()
	if err != nil {
		return nil, err
	}
	stdout, err := cmd.StdoutPipe()
	if err != nil {
		return nil, err
	}
	cmd.Stderr = cmd.Stdout
	if err := cmd.Start(); err != nil {
		return nil, err
	}
	s := &Solver{kind: kind, cmd: cmd, in: bufio.NewWriterSize(stdin, 1<<16), out: bufio.NewReaderSize(stdout, 1<<16),
		defined: map[int]bool{}, ts: ts, timeout: timeoutMs}
	if p := os.Getenv("SYMGO_SMTLOG"); p != "" {
		f, _ := os.Create(fmt.Sprintf("%s.%d", p, cmd.Process.Pid))
		s.log = f
	}
	if kind == SolverCVC5 {
		s.send("(set-logic ALL)")
		s.send("(set-option :global-declarations true)")
	} else {
		s.send("(set-option :global-decls true)")
		s.send("(set-option :timeout " + strconv.Itoa(timeoutMs) + ")")
		s.send("(set-option :model.completion true)")
	}
	s.send("(set-option :produce-models true)")
	return s, nil
}

func (s *Solver) Close() {
	if s.cmd != nil && s.cmd.Process != nil {
		s.send("(exit)")
		s.in.Flush()
		done := make(chan struct{})
		go func() { s.cmd.Wait(); close(done) }()
		select {
		case <-done:
		case <-time.After(2 * time.Second):
			s.cmd.Process.Kill()
		}
	}
}

func (s *Solver) send(line string) {
	if s.log != nil {
		fmt.Fprintln(s.log, line)
	}
	s.in.WriteString(line)
	s.in.WriteByte('\n')
}

// define makes sure t and all its sub-terms are known to the solver.
func (s *Solver) define(t *Term) {
	if t.op == "const" || s.defined[t.id] {
		return
	}
	// iterative post-order to avoid deep recursion
	type item struct {
		t    *Term
		done bool
	}
	stack := []item{{t, false}}
	for len(stack) > 0 {
		it := stack[len(stack)-1]
		stack = stack[:len(stack)-1]
		if it.t.op == "const" || s.defined[it.t.id] {
			continue
		}
		if it.t.op == "var" {
			s.send("(declare-const " + it.t.name + " " + it.t.sort.String() + ")")
			s.defined[it.t.id] = true
			continue
		}
		if it.done {
			s.send("(define-fun " + it.t.ref() + " () " + it.t.sort.String() + " " + it.t.body() + ")")
			s.defined[it.t.id] = true
			continue
		}
		stack = append(stack, item{it.t, true})
		for _, a := range it.t.args {
			if a.op != "const" && !s.defined[a.id] {
				stack = append(stack, item{a, false})
			}
		}
	}
}

func (s *Solver) Push() {
	s.send("(push 1)")
	s.depth++
}

func (s *Solver) Pop() {
	s.send("(pop 1)")
	s.depth--
}

func (s *Solver) PopTo(d int) {
	for s.depth > d {
		s.Pop()
	}
}

func (s *Solver) Assert(t *Term) {
	if t.sort != sBool {
		panic("assert of non-bool term")
	}
	s.define(t)
	s.send("(assert " + t.ref() + ")")
}

// Check returns "sat", "unsat" or "unknown" (the latter also for any error output).
func (s *Solver) Check() string {
	if s.dead {
		s.Stats.Unknown++
		return "unknown"
	}
	start := time.Now()
	s.send("(check-sat)")
	s.in.Flush()
	res := "unknown"
	// Hard wall-clock limit: z3 4.8.12 does not always honour :timeout inside
	// preprocessing/bit-blasting. A solver that has not answered after 3x the
	// soft limit + 20 s is killed; the query (and everything after it on this
	// worker) is then "unknown", i.e. inconclusive, never a pass.
	hard := time.Duration(3*s.timeout)*time.Millisecond + 20*time.Second
	killed := false
	wd := time.AfterFunc(hard, func() {
		killed = true
		if s.cmd != nil && s.cmd.Process != nil {
			s.cmd.Process.Kill()
		}
	})
	defer wd.Stop()
	for {
		line, err := s.out.ReadString('\n')
		if err != nil {
			s.dead = true
			s.lastErr = "solver died: " + err.Error()
			if killed {
				s.lastErr = fmt.Sprintf("solver killed after the hard limit of %s on one query", hard)
			}
			res = "unknown"
			break
		}
		line = strings.TrimSpace(line)
		if line == "" {
			continue
		}
		if line == "sat" || line == "unsat" || line == "unknown" || line == "timeout" {
			if line == "timeout" {
				line = "unknown"
			}
			res = line
			break
		}
		if strings.HasPrefix(line, "(error") {
			s.Stats.Errors++
			s.lastErr = line
			// keep reading: the check-sat answer still follows, but is not trusted
			continue
		}
		// other chatter (warnings)
	}
	if s.Stats.Errors > 0 && res != "unknown" {
		// any error line makes every later answer inconclusive
		res = "unknown"
	}
	s.Stats.Time += time.Since(start)
	switch res {
	case "sat":
		s.Stats.Sat++
	case "unsat":
		s.Stats.Unsat++
	default:
		s.Stats.Unknown++
	}
	return res
}

// CheckWith checks the current context plus extra assertions in a temporary scope.
func (s *Solver) CheckWith(extra ...*Term) string {
	s.Push()
	for _, e := range extra {
		s.Assert(e)
	}
	r := s.Check()
	s.Pop()
	return r
}

// GetModel returns values for the given variables; must follow a "sat" Check
// in the same scope.
func (s *Solver) GetModel(vars []*Term) (Model, error) {
	t0 := time.Now()
	defer func() { s.Stats.ModelTime += time.Since(t0) }()
	m := Model{}
	var decl []*Term
	for _, v := range vars {
		if s.defined[v.id] {
			decl = append(decl, v)
		}
	}
	for i := 0; i < len(decl); i += 200 {
		j := i + 200
		if j > len(decl) {
			j = len(decl)
		}
		var sb strings.Builder
		sb.WriteString("(get-value (")
		for _, v := range decl[i:j] {
			sb.WriteString(v.name)
			sb.WriteByte(' ')
		}
		sb.WriteString("))")
		s.send(sb.String())
		s.in.Flush()
		txt, err := s.readSexp()
		if err != nil {
			return nil, err
		}
		if strings.HasPrefix(txt, "(error") {
			return nil, fmt.Errorf("get-value: %s", txt)
		}
		if err := s.parseValues(txt, decl[i:j], m); err != nil {
			return nil, err
		}
	}
	return m, nil
}

// readSexp reads one balanced s-expression from the solver.
func (s *Solver) readSexp() (string, error) {
	var sb strings.Builder
	depth := 0
	started := false
	for {
		c, err := s.out.ReadByte()
		if err != nil {
			s.dead = true
			return "", err
		}
		if !started {
			if c == '(' {
				started = true
			} else {
				continue
			}
		}
		sb.WriteByte(c)
		if c == '(' {
			depth++
		} else if c == ')' {
			depth--
			if depth == 0 {
				return sb.String(), nil
			}
		}
	}
}

type sx struct {
	atom string
	list []*sx
}

func parseSx(s string, pos *int) *sx {
	for *pos < len(s) && (s[*pos] == ' ' || s[*pos] == '\n' || s[*pos] == '\t' || s[*pos] == '\r') {
		*pos++
	}
	if *pos >= len(s) {
		return nil
	}
	if s[*pos] == '(' {
		*pos++
		n := &sx{list: []*sx{}}
		for {
			for *pos < len(s) && (s[*pos] == ' ' || s[*pos] == '\n' || s[*pos] == '\t' || s[*pos] == '\r') {
				*pos++
			}
			if *pos >= len(s) {
				return n
			}
			if s[*pos] == ')' {
				*pos++
				return n
			}
			n.list = append(n.list, parseSx(s, pos))
		}
	}
	st := *pos
	for *pos < len(s) && !strings.ContainsRune(" \n\t\r()", rune(s[*pos])) {
		*pos++
	}
	return &sx{atom: s[st:*pos]}
}

func (s *Solver) parseValues(txt string, vars []*Term, m Model) error {
	p := 0
	root := parseSx(txt, &p)
	if root == nil || root.list == nil {
		return fmt.Errorf("bad get-value reply: %s", txt)
	}
	byName := map[string]*Term{}
	for _, v := range vars {
		byName[v.name] = v
	}
	for _, pair := range root.list {
		if len(pair.list) != 2 {
			return fmt.Errorf("bad pair in get-value reply: %s", txt)
		}
		v := byName[pair.list[0].atom]
		if v == nil {
			continue
		}
		c, err := s.constFromSx(pair.list[1], v.sort)
		if err != nil {
			return fmt.Errorf("value of %s: %v", v.name, err)
		}
		m[v.name] = c
	}
	return nil
}

func ratFromSx(x *sx) (*big.Rat, error) {
	if x.atom != "" {
		r, ok := new(big.Rat).SetString(x.atom)
		if !ok {
			return nil, fmt.Errorf("bad number %q", x.atom)
		}
		return r, nil
	}
	if len(x.list) == 2 && x.list[0].atom == "-" {
		r, err := ratFromSx(x.list[1])
		if err != nil {
			return nil, err
		}
		return r.Neg(r), nil
	}
	if len(x.list) == 3 && x.list[0].atom == "/" {
		a, err := ratFromSx(x.list[1])
		if err != nil {
			return nil, err
		}
		b, err := ratFromSx(x.list[2])
		if err != nil {
			return nil, err
		}
		if b.Sign() == 0 {
			return nil, fmt.Errorf("division by zero in model value")
		}
		return a.Quo(a, b), nil
	}
	return nil, fmt.Errorf("unsupported numeric model value")
}

func (s *Solver) constFromSx(x *sx, sort Sort) (*Term, error) {
	switch sort.K {
	case kBool:
		switch x.atom {
		case "true":
			return s.ts.Bool(true), nil
		case "false":
			return s.ts.Bool(false), nil
		}
	case kBV:
		a := x.atom
		if strings.HasPrefix(a, "#x") {
			v, err := strconv.ParseUint(a[2:], 16, 64)
			return s.ts.BV(sort.W, v), err
		}
		if strings.HasPrefix(a, "#b") {
			v, err := strconv.ParseUint(a[2:], 2, 64)
			return s.ts.BV(sort.W, v), err
		}
		if len(x.list) == 3 && x.list[0].atom == "_" && strings.HasPrefix(x.list[1].atom, "bv") {
			v, err := strconv.ParseUint(x.list[1].atom[2:], 10, 64)
			return s.ts.BV(sort.W, v), err
		}
	case kInt:
		r, err := ratFromSx(x)
		if err != nil {
			return nil, err
		}
		return s.ts.intern("ci:"+r.String(), func() *Term { return &Term{op: "const", sort: sInt, big: r} }), nil
	case kReal:
		r, err := ratFromSx(x)
		if err != nil {
			return nil, err
		}
		return s.ts.RealC(r), nil
	case kFP:
		// (fp #b0 #b... #b...) or (_ +zero 11 53) etc.
		if len(x.list) == 4 && x.list[0].atom == "fp" {
			sg, _ := strconv.ParseUint(strings.TrimPrefix(x.list[1].atom, "#b"), 2, 64)
			var ex, mn uint64
			if strings.HasPrefix(x.list[2].atom, "#b") {
				ex, _ = strconv.ParseUint(x.list[2].atom[2:], 2, 64)
			} else {
				ex, _ = strconv.ParseUint(strings.TrimPrefix(x.list[2].atom, "#x"), 16, 64)
			}
			if strings.HasPrefix(x.list[3].atom, "#b") {
				mn, _ = strconv.ParseUint(x.list[3].atom[2:], 2, 64)
			} else {
				mn, _ = strconv.ParseUint(strings.TrimPrefix(x.list[3].atom, "#x"), 16, 64)
			}
			return s.ts.FPC(float64frombits(sg<<63 | ex<<52 | mn)), nil
		}
		if len(x.list) == 4 && x.list[0].atom == "_" {
			switch x.list[1].atom {
			case "+zero":
				return s.ts.FPC(0), nil
			case "-zero":
				return s.ts.FPC(float64frombits(1 << 63)), nil
			case "+oo":
				return s.ts.FPC(float64frombits(0x7ff << 52)), nil
			case "-oo":
				return s.ts.FPC(float64frombits(0xfff << 52)), nil
			case "NaN":
				return s.ts.FPC(float64frombits(0x7ff8 << 48)), nil
			}
		}
	}
	return nil, fmt.Errorf("cannot parse model value for sort %v", sort)
}
