#!/usr/bin/env python3
"""Writes HARNESSES.md: every registered harness with what it decides and its bounds (from harness/registry.json)."""
import json
r = json.load(open('harness/registry.json'))['harnesses']
out = ["# Harnesses (generated from harness/registry.json by gen_harness_table.py)", "",
       "Each harness is an in-package Go function in /verif/harness/, injected into /repo through an overlay, executed symbolically by the engine and replayed natively. `what` is the obligation in words; bounds are per tier.", ""]
byprop = {}
for n, h in r.items():
    byprop.setdefault(h['property'], []).append((n, h))
for p in sorted(byprop):
    out.append(f"## {p}")
    out.append("")
    for n, h in sorted(byprop[p]):
        out.append(f"### {n}")
        out.append("")
        out.append(h['what'])
        out.append("")
        b = h.get('bounds', {})
        out.append(f"* bounds - quick: {b.get('quick','')}; thorough: {b.get('thorough','')}")
        if h.get('encodes'):
            out.append("* real code executed: " + ", ".join(h['encodes']))
        if h.get('outside'):
            out.append("* outside the bound: " + "; ".join(h['outside']))
        if h.get('assumptions'):
            out.append("* assumptions and stubs: " + "; ".join(h['assumptions']))
        if h.get('reach'):
            out.append("* must-reach labels (vacuity guard): " + ", ".join(h['reach']))
        out.append("")
open('HARNESSES.md', 'w').write("\n".join(out))
print(len(r), "harnesses")
